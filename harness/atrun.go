package main

// Execution of AT cases against the real proxy: local transactions inside one global transaction,
// observation of lock keys / images / tables, coordinator-driven rollback.

import (
	"context"
	"database/sql"
	"errors"
	"fmt"
	"math"
	"os"
	"sort"
	"strings"
	"time"

	"seata.apache.org/seata-go/pkg/datasource/sql/types"
	"seata.apache.org/seata-go/pkg/datasource/sql/undo"
	"seata.apache.org/seata-go/pkg/datasource/sql/undo/base"
	"seata.apache.org/seata-go/pkg/protocol/branch"
)

type ATLocalTx struct {
	// ContinueOnError: the application ignores a failed statement, carries on and commits (explicit only)
	ContinueOnError bool
	Explicit        bool
	Stmts           []*ATStmt
}

type ATCase struct {
	ID       string
	Ser      string
	Comp     string
	Validate bool
	OnlyCare bool
	Schema   *ATSchema
	Rows     [][]ATVal
	Locals   []ATLocalTx
	Classes  []string
	AutoStep int // auto_increment_increment of the server the case runs on (0: 1)
}

func (c *ATCase) cfgTok() string {
	a := b2i(c.Schema != nil && c.Schema.Auto)
	if a == 1 && c.AutoStep == 2 {
		a = 2
	}
	return fmt.Sprintf("v%do%da%d", b2i(c.Validate), b2i(c.OnlyCare), a)
}

// worldFor picks the data source a case runs on: every second case with an AUTO_INCREMENT key runs on the
// second data source of the process (another server, auto_increment_increment = 2); all others on the first
func worldFor(w *ATWorld, cs *ATCase, i int) *ATWorld {
	if cs.Schema != nil && cs.Schema.Auto && i%2 == 1 {
		cs.AutoStep = 2
		return GetATWorldB()
	}
	return w
}

func (c *ATCase) headerToks() []string {
	toks := []string{"at", c.cfgTok(), c.Schema.Tok()}
	for _, r := range c.Rows {
		toks = append(toks, rowTok(r))
	}
	toks = append(toks, "|")
	return toks
}

func canonCell(v interface{}) string {
	switch x := v.(type) {
	case nil:
		return "N"
	case int64:
		return fmt.Sprintf("i%d", x)
	case int32:
		return fmt.Sprintf("i%d", x)
	case int16:
		return fmt.Sprintf("i%d", x)
	case int8:
		return fmt.Sprintf("i%d", x)
	case int:
		return fmt.Sprintf("i%d", x)
	case uint64:
		return fmt.Sprintf("i%d", x)
	case float64:
		if x == math.Trunc(x) {
			return fmt.Sprintf("i%d", int64(x))
		}
		return fmt.Sprintf("f%v", x)
	case float32:
		return fmt.Sprintf("f%v", x)
	case string:
		return "s" + hx([]byte(x))
	case []byte:
		return "b" + hx(x)
	case time.Time:
		return fmt.Sprintf("t%d", x.UnixNano())
	default:
		return fmt.Sprintf("?%T", v)
	}
}

func keyText(v interface{}) string {
	switch x := v.(type) {
	case float64:
		if x == math.Trunc(x) {
			return fmt.Sprint(int64(x))
		}
	}
	return fmt.Sprintf("%v", v)
}

// showImage renders a decoded RecordImage in the model's format: rows `key:col=val,...` sorted
func showImage(sc *ATSchema, img *types.RecordImage) string {
	if img == nil || len(img.Rows) == 0 {
		return "-"
	}
	idx := map[string]int{}
	for i, c := range sc.Cols {
		idx[strings.ToLower(c.Name)] = i
	}
	var rows []string
	for _, r := range img.Rows {
		keyParts := make([]string, len(sc.PK))
		cellSet := map[string]bool{}
		for _, col := range r.Columns {
			ci, ok := idx[strings.ToLower(strings.Trim(col.ColumnName, "`"))]
			if !ok {
				cellSet["?"+col.ColumnName] = true
				continue
			}
			cellSet[fmt.Sprintf("%d=%s", ci, canonCell(col.Value))] = true
			for k, p := range sc.PK {
				if p == ci {
					keyParts[k] = keyText(col.Value)
				}
			}
		}
		var cells []string
		for c := range cellSet {
			cells = append(cells, c)
		}
		sort.Strings(cells)
		rows = append(rows, strings.Join(keyParts, "_")+":"+strings.Join(cells, ","))
	}
	sort.Strings(rows)
	return strings.Join(rows, ";")
}

func showUndoLog(sc *ATSchema, l *undo.BranchUndoLog) string {
	if l == nil {
		return "nolog"
	}
	var items []string
	for _, it := range l.Logs {
		k := "?"
		switch it.SQLType {
		case types.SQLTypeInsert:
			k = "I"
		case types.SQLTypeUpdate:
			k = "U"
		case types.SQLTypeDelete:
			k = "D"
		}
		items = append(items, fmt.Sprintf("%s[%s|%s]", k, showImage(sc, it.BeforeImage), showImage(sc, it.AfterImage)))
	}
	return strings.Join(items, "+")
}

func parseLockKeys(lk string) string {
	set := map[string]bool{}
	for _, part := range strings.Split(lk, ";") {
		if part == "" {
			continue
		}
		i := strings.Index(part, ":")
		if i < 0 {
			set["?"+part] = true
			continue
		}
		for _, k := range strings.Split(part[i+1:], ",") {
			if k != "" {
				set[k] = true
			}
		}
	}
	if len(set) == 0 {
		return "-"
	}
	var ks []string
	for k := range set {
		ks = append(ks, k)
	}
	sort.Strings(ks)
	return strings.Join(ks, ",")
}

type ATRun struct {
	w          *ATWorld
	c          *ATCase
	xid        string
	Branches   []BranchInfo
	Obs        []string // observation segments, in the model's format
	Toks       []string // script tokens for the model
	Initial    string
	crash      string
	lateCommit string                // set when a local transaction committed writes after its branch had been rolled back early
	Logs       []*undo.BranchUndoLog // decoded undo log per registered branch (nil if none)
}

// undoLogOf returns the decoded undo log of a branch (nil if there is no normal row)
func (r *ATRun) undoLogOf(b BranchInfo) (*undo.BranchUndoLog, bool) {
	for _, row := range r.w.Eng.Dump("undo_log") {
		if fmt.Sprint(row[1]) == fmt.Sprint(b.BranchID) && fmt.Sprint(row[2]) == b.Xid && fmt.Sprint(row[5]) == "0" {
			ctxB, _ := row[3].(string)
			var ctxBytes []byte
			if ctxB != "" {
				ctxBytes = []byte(ctxB)
			} else if bb, ok := row[3].([]byte); ok {
				ctxBytes = bb
			}
			info, _ := row[4].([]byte)
			var l *undo.BranchUndoLog
			safeCall(func() { l, _ = base.VerifDecodeUndoLog(ctxBytes, info) })
			return l, true
		}
	}
	return nil, false
}

func (r *ATRun) snapshot() string {
	var logs []string
	for i, b := range r.Branches {
		if _, ok := r.undoLogOf(b); ok {
			logs = append(logs, fmt.Sprint(i+1))
		}
	}
	u := "-"
	if len(logs) > 0 {
		u = strings.Join(logs, ",")
	}
	return fmt.Sprintf("t=%s undo=%s", r.w.DumpTable(r.c.Schema.Table), u)
}

// PhaseOne runs all local transactions inside one global transaction whose callback then fails (so
// the initiator asks for a global rollback); `between` is called after each local transaction.
func (r *ATRun) PhaseOne(hook func(r *ATRun, localIdx int)) {
	w, c := r.w, r.c
	w.SetUndoConfig(c.Ser, c.Comp, c.Validate, c.OnlyCare)
	sc := c.Schema
	sc.Create(w.Eng)
	for _, row := range c.Rows {
		if err := w.Eng.InsertRows(sc.Table, toMemRow(row)); err != nil {
			panic(err)
		}
	}
	r.Initial = w.DumpTable(sc.Table)
	w.coord.ResetLog()
	w.Eng.ResetJournal()
	// every fifth case runs its local transactions on ONE pinned connection (db.Conn): database/sql does not
	// reset the session between them, as it does when a connection comes out of the pool
	pinned := idHash(c.ID)%5 == 1
	// every seventh case sends its statements as prepared statements (Prepare, then Exec on the statement)
	prepared := idHash(c.ID)%7 == 3
	type preparer interface {
		PrepareContext(ctx context.Context, query string) (*sql.Stmt, error)
		ExecContext(ctx context.Context, query string, args ...interface{}) (sql.Result, error)
	}
	exec := func(ctx context.Context, x preparer, q string, args []interface{}) (sql.Result, error) {
		if !prepared {
			return x.ExecContext(ctx, q, args...)
		}
		ps, err := x.PrepareContext(ctx, q)
		if err != nil {
			return nil, err
		}
		defer ps.Close()
		return ps.ExecContext(ctx, args...)
	}
	r.crash = safeCall(func() {
		r.xid, _ = InGlobalTx(c.ID, func(ctx context.Context) error {
			var db interface {
				BeginTx(ctx context.Context, opts *sql.TxOptions) (*sql.Tx, error)
				preparer
			} = w.DB
			if pinned {
				conn, cerr := w.DB.Conn(ctx)
				if cerr != nil {
					panic(cerr)
				}
				defer conn.Close()
				db = conn
			}
			for li, ltx := range c.Locals {
				if ltx.Explicit && ltx.ContinueOnError {
					r.Toks = append(r.Toks, "Lc")
				} else {
					r.Toks = append(r.Toks, "L")
				}
				nBefore := len(w.coord.RegisteredBranches(tmXID(ctx)))
				var err error
				if ltx.Explicit {
					var tx *sql.Tx
					tx, err = db.BeginTx(ctx, nil)
					if err == nil {
						for _, st := range ltx.Stmts {
							q, args, tok := st.Render(sc)
							r.Toks = append(r.Toks, tok)
							if ltx.ContinueOnError {
								disarm := st.Arm(w.Eng, sc.Table)
								exec(ctx, tx, q, args)
								disarm()
							} else if err == nil {
								disarm := st.Arm(w.Eng, sc.Table)
								_, err = exec(ctx, tx, q, args)
								disarm()
							}
						}
						if err != nil {
							tx.Rollback()
						} else {
							err = tx.Commit()
						}
					}
				} else {
					st := ltx.Stmts[0]
					q, args, tok := st.Render(sc)
					r.Toks = append(r.Toks, tok)
					disarm := st.Arm(w.Eng, sc.Table)
					_, err = exec(ctx, db, q, args)
					disarm()
				}
				brs := w.coord.RegisteredBranches(tmXID(ctx))
				if err != nil && os.Getenv("VERIF_DEBUG") != "" {
					fmt.Fprintf(os.Stderr, "DEBUG %s local %d error: %v\n", c.ID, li, err)
				}
				switch {
				case err != nil:
					r.Obs = append(r.Obs, "L:err")
				case len(brs) == nBefore:
					r.Obs = append(r.Obs, "L:ok:nobranch")
				default:
					b := brs[len(brs)-1]
					r.Branches = append(r.Branches, b)
					l, has := r.undoLogOf(b)
					r.Logs = append(r.Logs, l)
					img := "-"
					if has {
						img = showUndoLog(sc, l)
					} else {
						img = "noundolog"
					}
					r.Obs = append(r.Obs, fmt.Sprintf("L:ok:k=%s:img=%s", parseLockKeys(b.LockKey), img))
				}
				if hook != nil {
					hook(r, li)
				}
			}
			return errors.New("roll the global transaction back")
		})
	})
	if os.Getenv("VERIF_DEBUG") != "" {
		for _, e := range w.Eng.Journal() {
			if e.Kind != "connect" && e.Table != "COLUMNS" && e.Table != "STATISTICS" {
				fmt.Fprintln(os.Stderr, "DEBUG P1", c.ID, e.Conn, e.Kind, e.SQL, e.Args, e.Err)
			}
		}
	}
	r.Toks = append(r.Toks, "END")
}

// Rollback has the coordinator roll back branch i (0-based) and appends the observation.
func (r *ATRun) Rollback(i int) bool {
	if i >= len(r.Branches) {
		r.Obs = append(r.Obs, "rb:nobranch")
		return false
	}
	// (a generous limit: under a loaded machine a rollback of many rows has taken more than five seconds, and a
	// delivery given up on reads as a failed rollback)
	st, ok, pn := r.w.coord.RollbackBranch(r.w.coord.LastSession(), r.Branches[i], 30*time.Second)
	if pn != "" && pn != "timeout" {
		r.Obs = append(r.Obs, "rb:fail")
		return false
	}
	if ok && st == branch.BranchStatusPhasetwoRollbacked {
		r.Obs = append(r.Obs, "rb:ok")
		return true
	}
	r.Obs = append(r.Obs, "rb:fail")
	return false
}

func (r *ATRun) RollbackAll() bool {
	all := true
	for i := len(r.Branches) - 1; i >= 0; i-- {
		if !r.Rollback(i) {
			all = false
		}
	}
	r.Toks = append(r.Toks, "RB")
	r.Obs = append(r.Obs, r.snapshot())
	return all
}

func (r *ATRun) Snap() {
	r.Toks = append(r.Toks, "SNAP")
	r.Obs = append(r.Obs, r.snapshot())
}

// idHash is a small deterministic hash of a case id (for directed variants that must not depend on the
// random stream)
func idHash(id string) int {
	h := 0
	for _, ch := range id {
		h = (h*31 + int(ch)) % 1000003
	}
	return h
}
