package main

// fakecoord: a scripted Seata coordinator implemented as a getty.Session.  Requests written by the
// real client go through the real RpcPackageHandler.Write, are parsed back, logged, answered per
// script; replies are encoded, pushed through the real RpcPackageHandler.Read and delivered to the
// real gettyClientHandler.OnMessage on their own goroutines (as getty's task pool does).

import (
	"fmt"
	"net"
	"os"
	"path/filepath"
	"strings"
	"sync"
	"sync/atomic"
	"time"

	getty "github.com/apache/dubbo-getty"

	"seata.apache.org/seata-go/pkg/client"
	"seata.apache.org/seata-go/pkg/protocol/branch"
	"seata.apache.org/seata-go/pkg/protocol/codec"
	"seata.apache.org/seata-go/pkg/protocol/message"
	sgetty "seata.apache.org/seata-go/pkg/remoting/getty"
)

type LoggedReq struct {
	Seq     int
	Session int
	Kind    string // GlobalBegin, GlobalCommit, ...
	Xid     string
	Msg     message.RpcMessage
	Stamp   int64 // global order stamp shared with other event sources
}

// Action returned by a script for one request.
type Action struct {
	Drop       bool          // never answer
	TransportE bool          // make the client's WritePkg fail (transport error)
	Delay      time.Duration // answer after this delay
	Dup        int           // extra duplicate replies
	Body       interface{}   // reply body (nil = default success body)
	Close      bool          // close the session instead of answering
	Sync       bool          // deliver the reply before WritePkg returns (the reader overtakes the writer)
}

type Coord struct {
	mu       sync.Mutex
	seq      int
	xidSeq   int64
	brSeq    int64
	Log      []LoggedReq
	sessions []*FakeSession
	// Script decides the reply for a request; nil = default success behaviour.
	Script func(s *FakeSession, kind string, m message.RpcMessage) Action
	Addr   string
	// branch ids handed out, by the message id of the BranchRegisterRequest they answered
	branchIDs map[int32]int64
}

var globalStamp int64

func Stamp() int64 { return atomic.AddInt64(&globalStamp, 1) }

var theCoord *Coord
var bootOnce sync.Once

const seataYml = `
seata:
  enabled: true
  application-id: verif-app
  tx-service-group: default_tx_group
  enable-auto-data-source-proxy: true
  data-source-proxy-mode: AT
  client:
    rm:
      async-commit-buffer-limit: 10000
      report-retry-count: 5
      table-meta-check-enable: false
      report-success-enable: false
      saga-branch-register-enable: false
      saga-json-parser: fastjson
      saga-retry-persist-mode-update: false
      saga-compensate-persist-mode-update: false
      tcc-action-interceptor-order: -2147482648
      sql-parser-type: druid
      lock:
        retry-interval: 10ms
        retry-times: 3
        retry-policy-branch-rollback-on-conflict: true
    tm:
      commit-retry-count: 5
      rollback-retry-count: 5
      default-global-transaction-timeout: 60s
      degrade-check: false
      degrade-check-period: 2000
      degrade-check-allow-times: 10s
      interceptor-order: -2147482648
    undo:
      data-validation: true
      log-serialization: json
      log-table: undo_log
      only-care-update-columns: true
      compress:
        enable: false
        type: none
        threshold: 64k
    load-balance:
      type: RandomLoadBalance
      virtual-nodes: 10
  service:
    vgroup-mapping:
      default_tx_group: default
    grouplist:
      default: ""
    enable-degrade: false
    disable-global-transaction: false
  transport:
    shutdown:
      wait: 3s
    type: TCP
    server: NIO
    heartbeat: true
    serialization: seata
    compressor: none
    enable-tm-client-batch-send-request: false
    enable-rm-client-batch-send-request: true
    rpc-rm-request-timeout: 30s
    rpc-tm-request-timeout: 30s
  config:
    type: file
    file:
      name: config.conf
  registry:
    type: file
    file:
      name: seatago.yml
  log:
    exception-rate: 100
  tcc:
    fence:
      log-table-name: tcc_fence_log
      clean-period: 60s
  getty:
    reconnect-interval: 0
    connection-num: 1
    session:
      compress-encoding: false
      tcp-no-delay: true
      tcp-keep-alive: true
      keep-alive-period: 120s
      tcp-r-buf-size: 262144
      tcp-w-buf-size: 65536
      tcp-read-timeout: 1s
      tcp-write-timeout: 5s
      wait-timeout: 1s
      max-msg-len: 16498688
      session-name: client_verif
      cron-period: 1s
`

// Boot initialises the real client once (client.InitPath with a generated config: file registry
// with an empty group list, so no TCP client is started) and opens one fake coordinator session.
func Boot() *Coord {
	bootOnce.Do(func() {
		dir, _ := os.MkdirTemp("", "verif-seata-")
		p := filepath.Join(dir, "seatago.yml")
		os.WriteFile(p, []byte(seataYml), 0o644)
		client.InitPath(p)
		os.RemoveAll(dir)
		theCoord = &Coord{Addr: "127.0.0.1:8091"}
		theCoord.OpenSession()
	})
	return theCoord
}

// OpenSession creates a new fake session and announces it to the client through OnOpen, as getty
// does for a freshly connected TCP session.
func (c *Coord) OpenSession() *FakeSession {
	return c.OpenSessionAt(c.Addr)
}

func (c *Coord) OpenSessionAt(addr string) *FakeSession {
	c.mu.Lock()
	s := &FakeSession{coord: c, id: len(c.sessions) + 1, addr: addr, attrs: map[interface{}]interface{}{}}
	c.sessions = append(c.sessions, s)
	c.mu.Unlock()
	sgetty.GetGettyClientHandlerInstance().OnOpen(s)
	return s
}

func (c *Coord) Sessions() []*FakeSession {
	c.mu.Lock()
	defer c.mu.Unlock()
	return append([]*FakeSession{}, c.sessions...)
}

// SetScript installs (or, with nil, removes) the script while sessions may be writing
func (c *Coord) SetScript(f func(s *FakeSession, kind string, m message.RpcMessage) Action) {
	c.mu.Lock()
	c.Script = f
	c.mu.Unlock()
}

func (c *Coord) ResetLog() {
	c.mu.Lock()
	c.Log = nil
	c.mu.Unlock()
}

func (c *Coord) Snapshot() []LoggedReq {
	c.mu.Lock()
	defer c.mu.Unlock()
	return append([]LoggedReq{}, c.Log...)
}

func (c *Coord) NewXid() string {
	return fmt.Sprintf("%s:%d", c.Addr, atomic.AddInt64(&c.xidSeq, 1)+1000)
}
func (c *Coord) NewBranchID() int64 { return atomic.AddInt64(&c.brSeq, 1) + 5000 }

func kindOf(body interface{}) (string, string) {
	switch b := body.(type) {
	case message.GlobalBeginRequest:
		return "GlobalBegin", b.TransactionName
	case message.GlobalCommitRequest:
		return "GlobalCommit", b.Xid
	case message.GlobalRollbackRequest:
		return "GlobalRollback", b.Xid
	case message.GlobalStatusRequest:
		return "GlobalStatus", b.Xid
	case message.GlobalReportRequest:
		return "GlobalReport", b.Xid
	case message.BranchRegisterRequest:
		return "BranchRegister", b.Xid
	case message.BranchReportRequest:
		return "BranchReport", b.Xid
	case message.GlobalLockQueryRequest:
		return "GlobalLockQuery", b.Xid
	case message.RegisterTMRequest:
		return "RegisterTM", ""
	case message.RegisterRMRequest:
		return "RegisterRM", b.ResourceIds
	case message.BranchCommitResponse:
		return "BranchCommitResponse", b.Xid
	case message.BranchRollbackResponse:
		return "BranchRollbackResponse", b.Xid
	case message.HeartBeatMessage:
		return "HeartBeat", ""
	default:
		return fmt.Sprintf("%T", body), ""
	}
}

func okHead() message.AbstractTransactionResponse {
	return message.AbstractTransactionResponse{AbstractResultMessage: message.AbstractResultMessage{ResultCode: message.ResultCodeSuccess}}
}
func failHead(msg string) message.AbstractTransactionResponse {
	return message.AbstractTransactionResponse{AbstractResultMessage: message.AbstractResultMessage{ResultCode: message.ResultCodeFailed, Msg: msg}}
}

// defaultReply is the success answer of a coordinator for each request kind (nil: no answer).
func (c *Coord) defaultReply(body interface{}) interface{} {
	switch body.(type) {
	case message.GlobalBeginRequest:
		return message.GlobalBeginResponse{AbstractTransactionResponse: okHead(), Xid: c.NewXid()}
	case message.GlobalCommitRequest:
		return message.GlobalCommitResponse{AbstractGlobalEndResponse: message.AbstractGlobalEndResponse{AbstractTransactionResponse: okHead(), GlobalStatus: message.GlobalStatusCommitted}}
	case message.GlobalRollbackRequest:
		return message.GlobalRollbackResponse{AbstractGlobalEndResponse: message.AbstractGlobalEndResponse{AbstractTransactionResponse: okHead(), GlobalStatus: message.GlobalStatusRollbacked}}
	case message.GlobalStatusRequest:
		return message.GlobalStatusResponse{AbstractGlobalEndResponse: message.AbstractGlobalEndResponse{AbstractTransactionResponse: okHead(), GlobalStatus: message.GlobalStatusBegin}}
	case message.BranchRegisterRequest:
		return message.BranchRegisterResponse{AbstractTransactionResponse: okHead(), BranchId: c.NewBranchID()}
	case message.BranchReportRequest:
		return message.BranchReportResponse{AbstractTransactionResponse: okHead()}
	case message.GlobalLockQueryRequest:
		return message.GlobalLockQueryResponse{AbstractTransactionResponse: okHead(), Lockable: true}
	case message.RegisterTMRequest:
		return message.RegisterTMResponse{AbstractIdentifyResponse: message.AbstractIdentifyResponse{Identified: true, Version: "1.5.2"}}
	case message.RegisterRMRequest:
		return message.RegisterRMResponse{AbstractIdentifyResponse: message.AbstractIdentifyResponse{Identified: true, Version: "1.5.2"}}
	}
	return nil
}

// ---- the session ----

type FakeSession struct {
	coord           *Coord
	id              int
	addr            string
	closed          int32
	attrMu          sync.Mutex
	attrs           map[interface{}]interface{}
	Sent            int64 // frames the coordinator pushed to the client
	closeAt, checks int32
}

var pkgHandler = &sgetty.RpcPackageHandler{}

func (s *FakeSession) WritePkg(pkg interface{}, timeout time.Duration) (int, int, error) {
	if s.IsClosed() {
		return 0, 0, fmt.Errorf("session closed")
	}
	bs, err := pkgHandler.Write(s, pkg)
	if err != nil {
		return 0, 0, err
	}
	// parse what went on the wire with the real reader (C12/C13 check the codec independently)
	back, n, err := pkgHandler.Read(s, bs)
	if err != nil || back == nil || n != len(bs) {
		return 0, 0, fmt.Errorf("fakecoord: client frame does not read back: n=%d len=%d err=%v", n, len(bs), err)
	}
	m := back.(message.RpcMessage)
	kind, xid := kindOf(m.Body)
	c := s.coord
	c.mu.Lock()
	c.seq++
	c.Log = append(c.Log, LoggedReq{Seq: c.seq, Session: s.id, Kind: kind, Xid: xid, Msg: m, Stamp: Stamp()})
	script := c.Script
	c.mu.Unlock()
	var act Action
	if script != nil {
		act = script(s, kind, m)
	}
	if act.TransportE {
		return 0, 0, fmt.Errorf("fakecoord: injected transport error")
	}
	if act.Close {
		s.CloseFromPeer()
		return len(bs), len(bs), nil
	}
	if act.Drop {
		return len(bs), len(bs), nil
	}
	body := act.Body
	if body == nil {
		body = c.defaultReply(m.Body)
	}
	if body == nil {
		return len(bs), len(bs), nil
	}
	if br, ok := body.(message.BranchRegisterResponse); ok && br.ResultCode == message.ResultCodeSuccess {
		c.mu.Lock()
		if c.branchIDs == nil {
			c.branchIDs = map[int32]int64{}
		}
		c.branchIDs[m.ID] = br.BranchId
		c.mu.Unlock()
	}
	reply := message.RpcMessage{ID: m.ID, Type: message.GettyRequestTypeResponse, Codec: byte(codec.CodecTypeSeata), Body: body}
	if act.Sync {
		s.Push(reply)
		return len(bs), len(bs), nil
	}
	for i := 0; i <= act.Dup; i++ {
		go func() {
			if act.Delay > 0 {
				time.Sleep(act.Delay)
			}
			s.Push(reply)
		}()
	}
	return len(bs), len(bs), nil
}

// Push sends a coordinator-originated message (reply or phase-two request) to the client:
// real Write -> real Read -> real OnMessage.
func (s *FakeSession) Push(m message.RpcMessage) error {
	bs, err := pkgHandler.Write(s, m)
	if err != nil {
		return err
	}
	pkg, _, err := pkgHandler.Read(s, bs)
	if err != nil || pkg == nil {
		return fmt.Errorf("fakecoord: own frame does not read back: %v", err)
	}
	atomic.AddInt64(&s.Sent, 1)
	sgetty.GetGettyClientHandlerInstance().OnMessage(s, pkg)
	return nil
}

// CloseFromPeer simulates connection loss: getty marks the session closed and calls OnClose.
func (s *FakeSession) CloseFromPeer() {
	if atomic.CompareAndSwapInt32(&s.closed, 0, 1) {
		sgetty.GetGettyClientHandlerInstance().OnClose(s)
	}
}

// IsClosed: a session armed with CloseAtCheck(k) starts answering "closed" at the k-th question (the
// connection goes away between two looks at it)
func (s *FakeSession) IsClosed() bool {
	if k := atomic.LoadInt32(&s.closeAt); k > 0 {
		if atomic.AddInt32(&s.checks, 1) >= k {
			atomic.StoreInt32(&s.closed, 1)
		}
	}
	return atomic.LoadInt32(&s.closed) == 1
}

// CloseAtCheck arms the session: from the k-th IsClosed() question on it is closed.
func (s *FakeSession) CloseAtCheck(k int) {
	atomic.StoreInt32(&s.checks, 0)
	atomic.StoreInt32(&s.closeAt, int32(k))
}
func (s *FakeSession) Close()     { atomic.StoreInt32(&s.closed, 1) }
func (s *FakeSession) ID() uint32 { return uint32(s.id) }
func (s *FakeSession) RemoteAddr() string {
	return s.addr
}
func (s *FakeSession) LocalAddr() string                    { return "127.0.0.1:50000" }
func (s *FakeSession) SetCompressType(getty.CompressType)   {}
func (s *FakeSession) IncReadPkgNum()                       {}
func (s *FakeSession) IncWritePkgNum()                      {}
func (s *FakeSession) UpdateActive()                        {}
func (s *FakeSession) GetActive() time.Time                 { return time.Now() }
func (s *FakeSession) ReadTimeout() time.Duration           { return time.Second }
func (s *FakeSession) SetReadTimeout(time.Duration)         {}
func (s *FakeSession) WriteTimeout() time.Duration          { return time.Second }
func (s *FakeSession) SetWriteTimeout(time.Duration)        {}
func (s *FakeSession) Send(interface{}) (int, error)        { return 0, nil }
func (s *FakeSession) CloseConn(int)                        {}
func (s *FakeSession) SetSession(getty.Session)             {}
func (s *FakeSession) Reset()                               {}
func (s *FakeSession) Conn() net.Conn                       { return nil }
func (s *FakeSession) Stat() string                         { return fmt.Sprintf("fakesession-%d", s.id) }
func (s *FakeSession) EndPoint() getty.EndPoint             { return nil }
func (s *FakeSession) SetMaxMsgLen(int)                     {}
func (s *FakeSession) SetName(string)                       {}
func (s *FakeSession) SetEventListener(getty.EventListener) {}
func (s *FakeSession) SetPkgHandler(getty.ReadWriter)       {}
func (s *FakeSession) SetReader(getty.Reader)               {}
func (s *FakeSession) SetWriter(getty.Writer)               {}
func (s *FakeSession) SetCronPeriod(int)                    {}
func (s *FakeSession) SetWaitTime(time.Duration)            {}
func (s *FakeSession) GetAttribute(k interface{}) interface{} {
	s.attrMu.Lock()
	defer s.attrMu.Unlock()
	return s.attrs[k]
}
func (s *FakeSession) SetAttribute(k interface{}, v interface{}) {
	s.attrMu.Lock()
	s.attrs[k] = v
	s.attrMu.Unlock()
}
func (s *FakeSession) RemoveAttribute(k interface{}) {
	s.attrMu.Lock()
	delete(s.attrs, k)
	s.attrMu.Unlock()
}
func (s *FakeSession) WriteBytes([]byte) (int, error)         { return 0, nil }
func (s *FakeSession) WriteBytesArray(...[]byte) (int, error) { return 0, nil }

// ---- helpers for coordinator-originated phase two ----

func (c *Coord) SendBranchRollback(s *FakeSession, id int32, xid string, branchID int64, bt branch.BranchType, resourceID string, appData []byte) error {
	return s.Push(message.RpcMessage{ID: id, Type: message.GettyRequestTypeRequestSync, Codec: byte(codec.CodecTypeSeata),
		Body: message.BranchRollbackRequest{AbstractBranchEndRequest: message.AbstractBranchEndRequest{Xid: xid, BranchId: branchID, BranchType: bt, ResourceId: resourceID, ApplicationData: appData}}})
}

func (c *Coord) SendBranchCommit(s *FakeSession, id int32, xid string, branchID int64, bt branch.BranchType, resourceID string, appData []byte) error {
	return s.Push(message.RpcMessage{ID: id, Type: message.GettyRequestTypeRequestSync, Codec: byte(codec.CodecTypeSeata),
		Body: message.BranchCommitRequest{AbstractBranchEndRequest: message.AbstractBranchEndRequest{Xid: xid, BranchId: branchID, BranchType: bt, ResourceId: resourceID, ApplicationData: appData}}})
}

// WaitFor polls the log until pred holds or the timeout elapses.
func (c *Coord) WaitFor(timeout time.Duration, pred func([]LoggedReq) bool) bool {
	deadline := time.Now().Add(timeout)
	for {
		if pred(c.Snapshot()) {
			return true
		}
		if time.Now().After(deadline) {
			return false
		}
		time.Sleep(2 * time.Millisecond)
	}
}

func kindsOf(log []LoggedReq, xid string) string {
	var ks []string
	for _, l := range log {
		if l.Xid == xid {
			ks = append(ks, l.Kind)
		}
	}
	return strings.Join(ks, ",")
}
