package main

import (
	"context"
	"database/sql"
	"errors"
	"fmt"
	"runtime"
	"strings"
	"sync"
	"sync/atomic"
	"time"

	gomysql "github.com/go-sql-driver/mysql"

	sql2 "seata.apache.org/seata-go/pkg/datasource/sql"
	"seata.apache.org/seata-go/pkg/datasource/sql/datasource"
	"seata.apache.org/seata-go/pkg/datasource/sql/datasource/base"
	dsmysql "seata.apache.org/seata-go/pkg/datasource/sql/datasource/mysql"
	"seata.apache.org/seata-go/pkg/protocol/branch"
	"seata.apache.org/seata-go/pkg/protocol/codec"
	"seata.apache.org/seata-go/pkg/protocol/message"
	"seata.apache.org/seata-go/pkg/remoting/loadbalance"
	rmclient "seata.apache.org/seata-go/pkg/remoting/processor/client"
	"seata.apache.org/seata-go/pkg/remoting/rpc"
	"seata.apache.org/seata-go/pkg/rm"
	"seata.apache.org/seata-go/pkg/rm/tcc"
	fencehandler "seata.apache.org/seata-go/pkg/rm/tcc/fence/handler"
	fencedao "seata.apache.org/seata-go/pkg/rm/tcc/fence/store/db/dao"

	"verifharness/memdb"
)

func init() { props["C20"] = runC20 }

type c20Hook struct{}

func (c20Hook) BeforeCommit(tx *sql2.Tx)   {}
func (c20Hook) BeforeRollback(tx *sql2.Tx) {}

// runC20 is a stress scenario meant to run in the race-enabled build of the harness: N goroutines run AT
// and XA global transactions through the shared handles while phase-two requests arrive, new
// table-meta caches start up, the load balancer's session set changes and hooks/codecs are looked up.
// It reports (one case per scenario) whether everything terminated and nothing was leaked; data races
// are reported by the runtime on stderr and collected by the check.
// c20FirstUse: the client's lazily created singletons, asked for by several goroutines at once as the first
// thing the process does with them (an application that registers resources on one goroutine while the session
// of another announces them). What it finds are race-detector reports.
func c20FirstUse() {
	var wg sync.WaitGroup
	start := make(chan struct{})
	for g := 0; g < 8; g++ {
		wg.Add(1)
		go func() {
			defer wg.Done()
			<-start
			safeCall(func() {
				rm.GetRmCacheInstance()
				rm.GetRMRemotingInstance()
				tcc.GetTCCResourceManagerInstance()
				codec.GetCodecManager()
				fencehandler.GetFenceHandler()
				fencedao.GetTccFenceStoreDatabaseMapper()
			})
		}()
	}
	close(start)
	wg.Wait()
}

// c20FenceAndCounters: (a) several branches whose try is delivered twice, at the same time, through the TCC fence
// (the second delivery of each meets the record of the first: the handler notes it for cleaning); (b) requests
// counted in and out per coordinator while the least-active policy reads the counters. What it finds are
// race-detector reports.
func c20FenceAndCounters() {
	fw := newFenceWorld()
	defer fw.close()
	var wg sync.WaitGroup
	for g := 0; g < 6; g++ {
		wg.Add(1)
		go func(g int) {
			defer wg.Done()
			for k := 0; k < 4; k++ {
				fw.deliverKeepFaults(int64(100+g), 'P') // (the first of them is applied, the others are duplicates)
			}
		}(g)
	}
	for g := 0; g < 4; g++ {
		wg.Add(1)
		go func(g int) {
			defer wg.Done()
			for k := 0; k < 200; k++ {
				addr := fmt.Sprintf("10.8.0.%d:8091", k%2)
				if g%2 == 0 {
					rpc.BeginCount(addr)
					rpc.EndCount(addr)
				} else {
					_ = rpc.GetStatus(addr).GetActive()
				}
			}
		}(g)
	}
	wg.Wait()
}

func runC20(c *Ctx) {
	if c.Only == "" {
		c20FirstUse()
		c20FenceAndCounters()
	}
	w := GetATWorld()
	xa := w.OpenXA()
	xa.SetMaxOpenConns(8)
	runC20PhaseTwoElsewhere(c, w, xa)
	runC20FailedStarts(c, w, xa)
	rng := NewRng(c.Seed)
	rounds := c.Budget(3, 12)
	for round := 0; round < rounds; round++ {
		r := rng.Fork()
		cid := fmt.Sprintf("c20-%d", round)
		if !c.Want(cid) {
			continue
		}
		nWorkers := 4 + r.Intn(5)
		perWorker := 6 + r.Intn(6)
		w.SetUndoConfig("json", "None", true, false)
		table := w.NewTableName("race")
		w.Eng.CreateTable(memdb.TableDef{Name: table, Cols: []memdb.Column{{Name: "id", Type: memdb.TBigInt}, {Name: "n", Type: memdb.TBigInt, Nullable: true}}, PK: []string{"id"}})
		for k := 0; k < nWorkers*2; k++ {
			w.Eng.InsertRows(table, memdb.Row{int64(k), int64(0)})
		}
		w.Eng.Exec("DELETE FROM undo_log")
		w.coord.ResetLog()
		time.Sleep(20 * time.Millisecond)
		goroutines0 := runtime.NumGoroutine()
		sessions0 := len(w.Eng.OpenTxns())
		// a slow server now and then: the asynchronous commit worker is held up on an undo-log delete while
		// further phase-two commits keep arriving (its collecting buffer and hand-over queue are in use at once)
		for k := 0; k < 4; k++ {
			w.Eng.AddFault(memdb.Fault{Kind: "delete", Table: "undo_log", Nth: 2 + 5*k, Delay: 25 * time.Millisecond})
		}
		// the coordinator answers some requests twice (a retransmission): dubbo-getty hands every message to a
		// task pool, so the two copies of a reply are processed at the same time
		var seenReq int64
		w.coord.SetScript(func(s *FakeSession, kind string, m message.RpcMessage) Action {
			if atomic.AddInt64(&seenReq, 1)%4 == 0 {
				return Action{Dup: 1}
			}
			return Action{}
		})
		var wg sync.WaitGroup
		var txDone, txErr int64
		stop := make(chan struct{})
		deadline := time.After(60 * time.Second)
		// ---- transactions
		for g := 0; g < nWorkers; g++ {
			wg.Add(1)
			go func(g int) {
				defer wg.Done()
				for k := 0; k < perWorker; k++ {
					commit := (g+k)%3 != 0
					useXA := (g+k)%4 == 3
					pn := safeCall(func() {
						xid, err := InGlobalTx(fmt.Sprintf("%s-%d-%d", cid, g, k), func(ctx context.Context) error {
							db := w.DB
							if useXA {
								db = xa
							}
							if k%5 == 4 && !useXA {
								// a statement on a table that does not exist: the metadata lookup fails
								db.ExecContext(ctx, fmt.Sprintf("UPDATE nosuch_%d_%d SET n = 1 WHERE id = 1", g, k))
							}
							q := "UPDATE " + table + " SET n = n + 1 WHERE id = ?"
							if k%3 == 1 {
								// as a prepared statement
								ps, e := db.PrepareContext(ctx, q)
								if e != nil {
									return e
								}
								_, e = ps.ExecContext(ctx, g*2+k%2)
								ps.Close()
								if e != nil {
									return e
								}
							} else if _, e := db.ExecContext(ctx, q, g*2+k%2); e != nil {
								return e
							}
							if !commit {
								return errors.New("roll back")
							}
							return nil
						})
						_ = err
						// phase two from the coordinator, concurrently with the other transactions
						for _, b := range w.coord.RegisteredBranches(xid) {
							if commit {
								w.coord.CommitBranch(w.coord.LastSession(), b, 5*time.Second)
							} else {
								w.coord.RollbackBranch(w.coord.LastSession(), b, 5*time.Second)
							}
						}
					})
					if pn != "" {
						atomic.AddInt64(&txErr, 1)
					}
					atomic.AddInt64(&txDone, 1)
				}
			}(g)
		}
		// ---- table-meta caches starting up (refresh goroutine) while tables are looked up
		wg.Add(1)
		go func() {
			defer wg.Done()
			cfg, _ := gomysql.ParseDSN(atDSN)
			// only in the first round: every cache keeps its two background goroutines for good (they do not
			// watch their context), which would drown the per-transaction leak check of the later rounds
			for k := 0; k < 12 && round == 0; k++ {
				select {
				case <-stop:
					return
				default:
				}
				cache := base.NewBaseCache(16, time.Hour, dsmysql.NewMysqlTrigger(), w.Bare, cfg)
				if k%2 == 1 {
					// a cache that already knows a table when its refresher starts: the first refresh runs at once
					if conn, err := w.Bare.Conn(context.Background()); err == nil {
						cache.GetTableMeta(context.Background(), "verifdb", table, conn)
					}
				}
				var iw sync.WaitGroup
				for j := 0; j < 3; j++ {
					iw.Add(1)
					go func() {
						defer iw.Done()
						conn, err := w.Bare.Conn(context.Background())
						if err == nil {
							cache.GetTableMeta(context.Background(), "verifdb", table, conn)
						}
					}()
				}
				cache.Init(context.Background())
				iw.Wait()
				cache.Destroy()
			}
		}()
		// ---- load balancing over a changing session set
		wg.Add(1)
		go func() {
			defer wg.Done()
			var sessions sync.Map
			var ss []*FakeSession
			for k := 0; k < 4; k++ {
				s := &FakeSession{id: 9000 + round*10 + k, addr: fmt.Sprintf("10.9.%d.%d:8091", round, k)}
				ss = append(ss, s)
				sessions.Store(s, s.addr)
			}
			var lw sync.WaitGroup
			for j := 0; j < 3; j++ {
				lw.Add(1)
				go func(j int) {
					defer lw.Done()
					for k := 0; k < 200; k++ {
						for _, lb := range []string{"ConsistentHashLoadBalance", "RoundRobinLoadBalance", "LeastActiveLoadBalance", "XID", "RandomLoadBalance"} {
							safeCall(func() { loadbalance.Select(lb, &sessions, fmt.Sprintf("10.9.%d.%d:8091:%d", round, k%4, k)) })
						}
						if k == 50*(j+1) {
							ss[j].Close() // a session goes away while others are selecting
						}
					}
				}(j)
			}
			lw.Wait()
		}()
		// ---- hooks and codecs looked up while being registered
		wg.Add(1)
		go func() {
			defer wg.Done()
			for k := 0; k < 30; k++ {
				sql2.RegisterTxHook(c20Hook{})
				codec.GetCodecManager().GetCodec(codec.CodecTypeSeata, 1)
				if k%10 == 0 {
					// the client registers its processors after its sessions are open (client.Init does so for the
					// resource manager's): messages are being delivered meanwhile
					rmclient.RegisterProcessor()
				}
				if k%5 == 0 {
					// an application registering a codec of its own while messages are being encoded
					codec.GetCodecManager().RegisterCodec(codec.CodecType(0x7f), &codec.GlobalBeginRequestCodec{})
				}
				time.Sleep(time.Millisecond)
			}
			sql2.CleanTxHooks()
		}()
		finished := make(chan struct{})
		go func() { wg.Wait(); close(finished) }()
		terminated := true
		select {
		case <-finished:
		case <-deadline:
			terminated = false
		}
		close(stop)
		w.coord.SetScript(nil)
		w.Eng.ClearFaults()
		// ---- quiescence and leaks
		time.Sleep(300 * time.Millisecond)
		var goroutines1 int
		for k := 0; k < 40; k++ {
			goroutines1 = runtime.NumGoroutine()
			if goroutines1 <= goroutines0+2 {
				break
			}
			time.Sleep(50 * time.Millisecond)
		}
		open := len(w.Eng.OpenTxns()) - sessions0
		// connections checked out of the shared pools and never given back (the asynchronous commit worker
		// may still be deleting undo logs: give the pools a moment to drain)
		countInUse := func() int {
			n := w.DB.Stats().InUse + xa.Stats().InUse + w.Bare.Stats().InUse // (w.Bare: the table-meta caches of this round draw from it)
			for _, bt := range []branch.BranchType{branch.BranchTypeAT, branch.BranchTypeXA} {
				datasource.GetDataSourceManager(bt).GetCachedResources().Range(func(_, v interface{}) bool {
					if res, ok := v.(*sql2.DBResource); ok && res.GetDB() != nil {
						n += res.GetDB().Stats().InUse
					}
					return true
				})
			}
			return n
		}
		inUse := countInUse()
		for k := 0; k < 100 && inUse > 0; k++ {
			time.Sleep(50 * time.Millisecond)
			inUse = countInUse()
		}
		undoLeft := len(w.Eng.Dump("undo_log"))
		obs := fmt.Sprintf("terminated=%d tx=%d", b2i(terminated), atomic.LoadInt64(&txDone))
		c.Out.Case(cid, "C20", fmt.Sprintf("stress %d %d", nWorkers, perWorker), obs)
		class, detail := "", ""
		switch {
		case !terminated:
			class, detail = "lock_up", fmt.Sprintf("%d of %d transactions finished within 60 s", atomic.LoadInt64(&txDone), nWorkers*perWorker)
		case atomic.LoadInt64(&txErr) > 0:
			class, detail = "crash", fmt.Sprintf("%d transactions panicked", txErr)
		case inUse > 0:
			class, detail = "connection_leak", fmt.Sprintf("%d pooled connections still checked out after every transaction finished", inUse)
		case open > 0:
			class, detail = "connection_left_in_transaction", fmt.Sprintf("%d more connections inside a transaction than before", open)
		case round > 0 && goroutines1 > goroutines0+2:
			class, detail = "goroutine_leak", fmt.Sprintf("%d goroutines before, %d after %d transactions", goroutines0, goroutines1, nWorkers*perWorker)
		}
		c.Out.Oracle(cid, class == "", class, fmt.Sprintf("%s | workers=%d per=%d goroutines %d->%d open=%d undo_left=%d", detail, nWorkers, perWorker, goroutines0, goroutines1, open, undoLeft))
		c.Out.Tag(cid, "nontrivial=1")
		c.Out.Count("stress.rounds")
		w.Eng.DropTable(table)
	}
	_ = strings.Join
	_ = sql.ErrNoRows
}

// runC20PhaseTwoElsewhere: "no connection is lost per transaction" when phase two arrives at a process that does not
// hold the branch's connection (the holder restarted, the coordinator picked another instance): the connection
// opened to finish the branch is given back. N transactions, each prepared here, forgotten, and finished.
func runC20PhaseTwoElsewhere(c *Ctx, w *ATWorld, xa *sql.DB) {
	for _, commit := range []bool{true, false} {
		cid := fmt.Sprintf("c20-elsewhere-%d", b2i(commit))
		if !c.Want(cid) {
			continue
		}
		table := w.NewTableName("else")
		w.Eng.CreateTable(memdb.TableDef{Name: table, Cols: []memdb.Column{{Name: "id", Type: memdb.TBigInt}, {Name: "n", Type: memdb.TBigInt, Nullable: true}}, PK: []string{"id"}})
		const n = 6
		for k := 0; k < n; k++ {
			w.Eng.InsertRows(table, memdb.Row{int64(k), int64(0)})
		}
		w.coord.ResetLog()
		mgr := datasource.GetDataSourceManager(branch.BranchTypeXA)
		var before, after int
		finished := 0
		crash := safeCall(func() {
			var todo []BranchInfo
			for k := 0; k < n; k++ {
				xid, err := InGlobalTx(fmt.Sprintf("%s-%d", cid, k), func(ctx context.Context) error {
					_, e := xa.ExecContext(ctx, "UPDATE "+table+" SET n = 1 WHERE id = ?", k)
					return e
				})
				if err != nil {
					continue
				}
				for _, b := range w.coord.RegisteredBranches(xid) {
					id := fmt.Sprintf("%s-%d", xid, b.BranchID)
					if w.Eng.XAState(id) != "PREPARED" {
						continue
					}
					if v, ok := mgr.GetCachedResources().Load(b.ResourceID); ok {
						v.(*sql2.DBResource).Release(id) // this process knows nothing of the branch any more
					}
					todo = append(todo, b)
				}
			}
			time.Sleep(50 * time.Millisecond)
			before = w.Eng.SessionCount()
			for _, b := range todo {
				var st branch.BranchStatus
				var ok bool
				if commit {
					st, ok, _ = w.coord.CommitBranch(w.coord.LastSession(), b, 3*time.Second)
				} else {
					st, ok, _ = w.coord.RollbackBranch(w.coord.LastSession(), b, 3*time.Second)
				}
				if ok && (st == branch.BranchStatusPhasetwoCommitted || st == branch.BranchStatusPhasetwoRollbacked) {
					finished++
				}
			}
			time.Sleep(50 * time.Millisecond)
			after = w.Eng.SessionCount()
		})
		c.Out.Case(cid, "C20", "skip", "skip")
		class, detail := "", ""
		switch {
		case crash != "":
			class, detail = "crash", crash
		case finished < n:
			class, detail = "phase_two_not_applied", fmt.Sprintf("%d of %d branches finished", finished, n)
		case after > before:
			class, detail = "connection_leak", fmt.Sprintf("%d connections to the database before phase two of %d branches, %d after: the connection opened to finish a branch this process does not hold is never closed", before, n, after)
		}
		c.Out.Oracle(cid, class == "", class, fmt.Sprintf("%s | commit=%v finished=%d connections %d->%d", detail, commit, finished, before, after))
		c.Out.Tag(cid, "nontrivial=1")
		c.Out.Count("elsewhere")
		xa.SetMaxIdleConns(0)
		xa.SetMaxIdleConns(2)
		w.Eng.DropTable(table)
	}
}

// runC20FailedStarts: "no connection is lost per transaction" when the branch of a transaction never starts (XA
// START refused): the connection it was going to run on is given back, nothing is kept for a phase two that
// will never come.
func runC20FailedStarts(c *Ctx, w *ATWorld, xa *sql.DB) {
	cid := "c20-failed-starts"
	if !c.Want(cid) {
		return
	}
	table := w.NewTableName("nostart")
	w.Eng.CreateTable(memdb.TableDef{Name: table, Cols: []memdb.Column{{Name: "id", Type: memdb.TBigInt}, {Name: "n", Type: memdb.TBigInt, Nullable: true}}, PK: []string{"id"}})
	w.Eng.InsertRows(table, memdb.Row{int64(1), int64(0)})
	xa.SetMaxIdleConns(0)
	time.Sleep(50 * time.Millisecond)
	before := w.Eng.SessionCount()
	const n = 6
	failed := 0
	crash := safeCall(func() {
		for k := 0; k < n; k++ {
			w.Eng.AddFault(memdb.Fault{Kind: "xa_start", Nth: 1})
			InGlobalTx(fmt.Sprintf("%s-%d", cid, k), func(ctx context.Context) error {
				sctx, cancel := context.WithTimeout(ctx, 5*time.Second)
				defer cancel()
				if _, e := xa.ExecContext(sctx, "UPDATE "+table+" SET n = 1 WHERE id = 1"); e != nil {
					failed++
				}
				return errors.New("give up")
			})
			w.Eng.ClearFaults()
		}
	})
	time.Sleep(100 * time.Millisecond)
	after := w.Eng.SessionCount()
	xa.SetMaxIdleConns(2)
	c.Out.Case(cid, "C20", "skip", "skip")
	class, detail := "", ""
	switch {
	case crash != "":
		class, detail = "crash", crash
	case failed < n:
		class, detail = "setup", fmt.Sprintf("%d of %d statements failed at XA START", failed, n)
	case after > before:
		class, detail = "connection_leak", fmt.Sprintf("%d connections to the database before %d transactions whose XA START was refused, %d after (the pool keeps no idle connection)", before, n, after)
	}
	c.Out.Oracle(cid, class == "", class, fmt.Sprintf("%s | connections %d->%d", detail, before, after))
	c.Out.Tag(cid, "nontrivial=1")
	c.Out.Count("failed-starts")
	w.Eng.DropTable(table)
}
