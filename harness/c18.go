package main

import (
	"context"
	"database/sql"
	"errors"
	"fmt"
	"sort"
	"strconv"
	"strings"
	"time"

	"seata.apache.org/seata-go/pkg/datasource/sql/types"
)

func init() { props["C18"] = runC18 }

// WhereSQL renders the statement's WHERE clause alone (for an independent evaluation by the engine).
func (s *ATStmt) WhereSQL(sc *ATSchema) (string, []interface{}) {
	o := &sqlOut{}
	if s.Where == nil || s.Where.Op == "T" {
		return "", nil
	}
	o.cond(sc, s.Where)
	args := make([]interface{}, len(o.args))
	for i, a := range o.args {
		args[i] = a.Go()
	}
	return " WHERE " + o.sb.String(), args
}

// SelectionSQL is WhereSQL plus the statement's ORDER BY … LIMIT: what selects the rows it works on
func (s *ATStmt) SelectionSQL(sc *ATSchema) (string, []interface{}) {
	q, args := s.WhereSQL(sc)
	if s.HasLimit() {
		q += " ORDER BY "
		for i, it := range s.Order {
			if i > 0 {
				q += ", "
			}
			q += sc.Cols[it.Col].Name
			if it.Desc {
				q += " DESC"
			}
		}
		q += fmt.Sprintf(" LIMIT %d", s.Limit)
	}
	return q, args
}

type queryer interface {
	QueryContext(ctx context.Context, q string, args ...interface{}) (*sql.Rows, error)
}

// tableByKey reads the whole table through q (inside the running local transaction when q is a *sql.Tx)
func tableByKey(ctx context.Context, q queryer, sc *ATSchema, where string, args []interface{}) (map[string][]string, error) {
	names := make([]string, len(sc.Cols))
	for i, c := range sc.Cols {
		names[i] = c.Name
	}
	rows, err := q.QueryContext(ctx, "SELECT "+strings.Join(names, ", ")+" FROM "+sc.Table+where, args...)
	if err != nil {
		return nil, err
	}
	defer rows.Close()
	out := map[string][]string{}
	for rows.Next() {
		vals := make([]interface{}, len(sc.Cols))
		ptrs := make([]interface{}, len(sc.Cols))
		for i := range vals {
			ptrs[i] = &vals[i]
		}
		if err := rows.Scan(ptrs...); err != nil {
			return nil, err
		}
		for i := range vals {
			vals[i] = normScan(vals[i])
			if sv, ok := vals[i].(string); ok && sc.Cols[i].Typ == 'i' {
				if n, err := strconv.ParseInt(sv, 10, 64); err == nil {
					vals[i] = n
				}
			}
		}
		parts := make([]string, len(sc.PK))
		for k, p := range sc.PK {
			parts[k] = keyText(vals[p])
		}
		cells := make([]string, len(vals))
		for i, v := range vals {
			cells[i] = canonCell(v)
		}
		out[strings.Join(parts, "_")] = cells
	}
	return out, rows.Err()
}

func normScan(v interface{}) interface{} {
	if b, ok := v.([]byte); ok {
		return string(b)
	}
	return v
}

func sortedKeys(m map[string][]string) []string {
	var ks []string
	for k := range m {
		ks = append(ks, k)
	}
	sort.Strings(ks)
	return ks
}

type c18Step struct {
	st      *ATStmt
	before  map[string][]string // table just before the statement
	after   map[string][]string // table just after
	matched map[string][]string // rows the WHERE clause selects just before (UPDATE / DELETE)
	err     error
}

type localObs struct {
	steps    []c18Step
	toks     []string
	localErr error
	xid      string
	crash    string
	obs      string
	items    []undoItemView
	brs      []BranchInfo
	rawKeys  string
}

// execLocalObserved runs the case's first local transaction inside a global transaction, reading the
// table (and evaluating each WHERE clause separately) around every statement.
func execLocalObserved(w *ATWorld, cs *ATCase, cid string) *localObs {
	lo := &localObs{}
	sc := cs.Schema
	w.SetUndoConfig(cs.Ser, cs.Comp, cs.Validate, cs.OnlyCare)
	sc.Create(w.Eng)
	for _, row := range cs.Rows {
		w.Eng.InsertRows(sc.Table, toMemRow(row))
	}
	w.coord.ResetLog()
	ltx := cs.Locals[0]
	lo.crash = safeCall(func() {
		lo.xid, _ = InGlobalTx(cid, func(ctx context.Context) error {
			if ltx.Explicit && ltx.ContinueOnError {
				lo.toks = append(lo.toks, "Lc")
			} else {
				lo.toks = append(lo.toks, "L")
			}
			if ltx.Explicit {
				tx, err := w.DB.BeginTx(ctx, nil)
				if err != nil {
					lo.localErr = err
					return err
				}
				for _, st := range ltx.Stmts {
					q, args, tok := st.Render(sc)
					lo.toks = append(lo.toks, tok)
					if lo.localErr != nil {
						continue
					}
					step := c18Step{st: st}
					step.before, _ = tableByKey(ctx, tx, sc, "", nil)
					if st.Kind != 'X' {
						wsql, wargs := st.SelectionSQL(sc)
						step.matched, _ = tableByKey(ctx, tx, sc, wsql, wargs)
					}
					disarm := st.Arm(w.Eng, sc.Table)
					_, step.err = tx.ExecContext(ctx, q, args...)
					disarm()
					if step.err == nil {
						step.after, _ = tableByKey(ctx, tx, sc, "", nil)
					}
					lo.steps = append(lo.steps, step)
					if !ltx.ContinueOnError {
						lo.localErr = step.err
					}
				}
				if lo.localErr != nil {
					tx.Rollback()
				} else {
					lo.localErr = tx.Commit()
				}
			} else {
				st := ltx.Stmts[0]
				q, args, tok := st.Render(sc)
				lo.toks = append(lo.toks, tok)
				step := c18Step{st: st}
				step.before, _ = tableByKey(ctx, w.Bare, sc, "", nil)
				if st.Kind != 'X' {
					wsql, wargs := st.SelectionSQL(sc)
					step.matched, _ = tableByKey(ctx, w.Bare, sc, wsql, wargs)
				}
				disarm := st.Arm(w.Eng, sc.Table)
				_, step.err = w.DB.ExecContext(ctx, q, args...)
				disarm()
				if step.err == nil {
					step.after, _ = tableByKey(ctx, w.Bare, sc, "", nil)
				}
				lo.steps = append(lo.steps, step)
				lo.localErr = step.err
			}
			return errors.New("roll back")
		})
	})
	lo.toks = append(lo.toks, "END")
	// ---- observation in the model's format
	lo.obs = "L:err"
	lo.brs = w.coord.RegisteredBranches(lo.xid)
	brs := lo.brs
	if lo.localErr == nil {
		if len(brs) == 0 {
			lo.obs = "L:ok:nobranch"
		} else {
			b := brs[len(brs)-1]
			lo.rawKeys = b.LockKey
			run := &ATRun{w: w, c: cs}
			l, has := run.undoLogOf(b)
			img := "noundolog"
			if has {
				img = showUndoLog(sc, l)
				if l != nil {
					for _, it := range l.Logs {
						lo.items = append(lo.items, undoItemView{kind: it.SQLType, before: imageCells(sc, it.BeforeImage), after: imageCells(sc, it.AfterImage)})
					}
				}
			}
			lo.obs = fmt.Sprintf("L:ok:k=%s:img=%s", parseLockKeys(b.LockKey), img)
		}
	}
	return lo
}

func runC18(c *Ctx) {
	w := GetATWorld()
	rng := NewRng(c.Seed)
	n := c.Budget(300, 30000)
	for i := 0; i < n; i++ {
		r := rng.Fork()
		cid := fmt.Sprintf("c18-%d", i)
		o := ATGenOpts{AllowFindings: r.Chance(20), NullableVals: r.Chance(50), StrPK: r.Chance(30), PKUpdates: r.Chance(50), BigInts: r.Chance(10), ContinueOnError: r.Chance(40), Upserts: r.Chance(30), OrderLimit: r.Chance(40), AutoInc: r.Chance(20)}
		cs := genATCase(r, w, cid, o)
		cs.Locals = cs.Locals[:1]
		cs.OnlyCare = r.Bool()
		w := worldFor(w, cs, i)
		if cs.Locals[0].Explicit && len(cs.Locals[0].Stmts) > 1 && !cs.Schema.Auto && r.Chance(50) {
			// the application ignores a failed statement (a rejected key-changing UPDATE, a duplicate key)
			// and commits the rest
			cs.Locals[0].ContinueOnError = true
			sc0 := cs.Schema
			if len(cs.Rows) > 0 && sc0.Cols[sc0.PK[0]].Typ == 'i' {
				// make sure one statement does fail: an UPDATE that would move an existing row to a fresh key
				row := cs.Rows[r.Intn(len(cs.Rows))]
				bad := &ATStmt{Kind: 'U', Sets: []ATSet{{Col: sc0.PK[0], Plus: -1, E: &ATExpr{K: 'a', Val: ATVal{K: 'i', I: int64(900 + r.Intn(50))}}}},
					Where: &ATCond{Op: "cmp:e", E: []*ATExpr{{K: 'c', Col: sc0.PK[0]}, {K: 'a', Val: row[sc0.PK[0]]}}}}
				l := &cs.Locals[0]
				at := r.Intn(len(l.Stmts))
				l.Stmts = append(l.Stmts[:at], append([]*ATStmt{bad}, l.Stmts[at:]...)...)
			}
		}
		if len(cs.Rows) < 2 && r.Chance(80) {
			cs.Rows = genRows(r, cs.Schema, 2+r.Intn(4))
		}
		if sc0 := cs.Schema; i%10 == 6 && !sc0.Auto && len(cs.Rows) >= 2 && len(sc0.PK) < len(sc0.Cols) {
			// directed: an explicit local transaction whose FIRST statement is an UPDATE the database fails; the
			// application carries on with two more statements and commits — each of them must be recorded with
			// its own images, not with what the failed statement left lying about
			var nonPK []int
			for ci := range sc0.Cols {
				if !sc0.isPK(ci) {
					nonPK = append(nonPK, ci)
				}
			}
			keyCond := func(row []ATVal) *ATCond {
				cond := &ATCond{Op: "cmp:e", E: []*ATExpr{{K: 'c', Col: sc0.PK[0]}, {K: 'a', Val: row[sc0.PK[0]]}}}
				for k := 1; k < len(sc0.PK); k++ {
					cond = &ATCond{Op: "A", A: cond, B: &ATCond{Op: "cmp:e", E: []*ATExpr{{K: 'c', Col: sc0.PK[k]}, {K: 'a', Val: row[sc0.PK[k]]}}}}
				}
				return cond
			}
			col := nonPK[i/10%len(nonPK)]
			set := func() []ATSet { return []ATSet{{Col: col, Plus: -1, E: &ATExpr{K: 'a', Val: genVal(r, sc0.Cols[col])}}} }
			cs.Locals[0] = ATLocalTx{Explicit: true, ContinueOnError: true, Stmts: []*ATStmt{
				{Kind: 'U', Sets: set(), Where: keyCond(cs.Rows[0]), ForceFail: true},
				{Kind: 'U', Sets: set(), Where: keyCond(cs.Rows[1])},
				{Kind: 'D', Where: keyCond(cs.Rows[0])},
			}}
		}
		cs.Classes = nil
		for _, st := range cs.Locals[0].Stmts {
			cs.Classes = append(cs.Classes, st.Classes...)
		}
		if !c.Want(cid) {
			continue
		}
		lo := execLocalObserved(w, cs, cid)
		sc, ltx := cs.Schema, cs.Locals[0]
		steps, toks, localErr, crash, obs, items, brs := lo.steps, lo.toks, lo.localErr, lo.crash, lo.obs, lo.items, lo.brs
		c.Out.Case(cid, "C18", strings.Join(append(cs.headerToks(), toks...), " "), obs)
		// ---- oracle: the images against the row-level difference around each statement
		class, detail := "", ""
		fail := func(cl, d string) {
			if class == "" {
				class, detail = cl, d
			}
		}
		if crash != "" {
			fail("crash", crash)
		}
		nontrivial := false
		if localErr == nil {
			next := 0
			for si, step := range steps {
				if step.err != nil {
					continue // a failed statement changes nothing (checked by the next step's before table) and records nothing
				}
				changed := map[string]bool{}
				for k, row := range step.before {
					if a, ok := step.after[k]; !ok || strings.Join(a, ",") != strings.Join(row, ",") {
						changed[k] = true
					}
				}
				for k := range step.after {
					if _, ok := step.before[k]; !ok {
						changed[k] = true
					}
				}
				touched := map[string]bool{}
				if step.st.Kind == 'Y' {
					// INSERT … ON DUPLICATE KEY UPDATE: the rows stored under the statement's keys; those that existed
					// are recorded as an UPDATE item, those that were inserted as an INSERT item (in that order)
					existed, inserted := map[string]bool{}, map[string]bool{}
					for _, row := range step.st.Rows {
						parts := make([]string, len(sc.PK))
						for k, p := range sc.PK {
							parts[k] = keyText(row[p].Val.Go())
						}
						key := strings.Join(parts, "_")
						if _, ok := step.before[key]; ok {
							existed[key] = true
						} else {
							inserted[key] = true
						}
					}
					nontrivial = true
					allCols := map[int]bool{}
					for ci := range sc.Cols {
						allCols[ci] = true
					}
					checkY := func(name string, img map[string]map[int]string, db map[string][]string, want map[string]bool) {
						if len(img) != len(want) {
							fail(name+"_image_of_upsert_has_wrong_rows", fmt.Sprintf("statement %d: image %v, expected keys %v", si, img, sortedBoolKeys(want)))
						}
						for k, cells := range img {
							row, ok := db[k]
							if !want[k] || !ok {
								fail(name+"_image_of_upsert_has_wrong_rows", fmt.Sprintf("statement %d: row %s", si, k))
								continue
							}
							for ci := range allCols {
								if v, has := cells[ci]; !has || ci >= len(row) || row[ci] != v {
									fail(name+"_image_wrong_content", fmt.Sprintf("statement %d row %s column %d: image %v database %v", si, k, ci, cells, row))
								}
							}
						}
					}
					if step.st.Form == 'r' {
						// REPLACE: a DELETE item for the rows that were stored under the statement's keys, then an
						// INSERT item for all the rows of the statement
						if len(existed) > 0 {
							if next >= len(items) {
								fail("changed_rows_not_recorded", fmt.Sprintf("statement %d (REPLACE): no item for the replaced rows", si))
								break
							}
							it := items[next]
							next++
							if it.kind != types.SQLTypeDelete {
								fail("wrong_item_kind", fmt.Sprintf("statement %d: item kind %v for the rows a REPLACE replaced", si, it.kind))
							}
							checkY("before", it.before, step.before, existed)
							if len(it.after) != 0 {
								fail("after_image_of_delete_not_empty", "")
							}
						}
						all := map[string]bool{}
						for k := range existed {
							all[k] = true
						}
						for k := range inserted {
							all[k] = true
						}
						if next >= len(items) {
							fail("changed_rows_not_recorded", fmt.Sprintf("statement %d (REPLACE): no item for the new rows %v", si, sortedBoolKeys(all)))
							break
						}
						it := items[next]
						next++
						if it.kind != types.SQLTypeInsert {
							fail("wrong_item_kind", fmt.Sprintf("statement %d: item kind %v for the rows a REPLACE inserted", si, it.kind))
						}
						if len(it.before) != 0 {
							fail("before_image_of_insert_not_empty", "")
						}
						checkY("after", it.after, step.after, all)
						for k := range changed {
							if !all[k] {
								fail("changed_row_outside_where", fmt.Sprintf("statement %d row %s", si, k))
							}
						}
						continue
					}
					if len(existed) > 0 {
						if next >= len(items) {
							fail("changed_rows_not_recorded", fmt.Sprintf("statement %d (upsert): no item for the existing rows", si))
							break
						}
						it := items[next]
						next++
						if it.kind != types.SQLTypeUpdate {
							fail("wrong_item_kind", fmt.Sprintf("statement %d: item kind %v for the existing rows of an upsert", si, it.kind))
						}
						checkY("before", it.before, step.before, existed)
						checkY("after", it.after, step.after, existed)
					}
					if len(inserted) > 0 {
						if next >= len(items) {
							fail("changed_rows_not_recorded", fmt.Sprintf("statement %d (upsert): no item for the inserted rows %v", si, sortedBoolKeys(inserted)))
							break
						}
						it := items[next]
						next++
						if it.kind != types.SQLTypeInsert {
							fail("wrong_item_kind", fmt.Sprintf("statement %d: item kind %v for the inserted rows of an upsert", si, it.kind))
						}
						if len(it.before) != 0 {
							fail("before_image_of_insert_not_empty", "")
						}
						checkY("after", it.after, step.after, inserted)
					}
					for k := range changed {
						if !existed[k] && !inserted[k] {
							fail("changed_row_outside_where", fmt.Sprintf("statement %d row %s", si, k))
						}
					}
					continue
				}
				switch step.st.Kind {
				case 'X':
					for k := range changed {
						touched[k] = true
					}
				default:
					for k := range step.matched {
						touched[k] = true
					}
				}
				if len(touched) == 0 {
					continue // nothing to record, and nothing recorded (checked by the item count below)
				}
				nontrivial = true
				if next >= len(items) {
					fail("changed_rows_not_recorded", fmt.Sprintf("statement %d changed %v but the undo log has only %d items", si, sortedBoolKeys(changed), len(items)))
					break
				}
				it := items[next]
				next++
				wantKind := map[byte]types.SQLType{'U': types.SQLTypeUpdate, 'D': types.SQLTypeDelete, 'X': types.SQLTypeInsert}[step.st.Kind]
				if it.kind != wantKind {
					fail("wrong_item_kind", fmt.Sprintf("statement %d: item kind %v", si, it.kind))
				}
				wantCols := map[int]bool{}
				if step.st.Kind == 'U' && cs.OnlyCare {
					for _, s := range step.st.Sets {
						wantCols[s.Col] = true
					}
					for _, p := range sc.PK {
						wantCols[p] = true
					}
				} else {
					for ci := range sc.Cols {
						wantCols[ci] = true
					}
				}
				checkImage := func(name string, img map[string]map[int]string, db map[string][]string, wantKeys map[string]bool) {
					for k := range wantKeys {
						if _, ok := img[k]; !ok {
							fail(name+"_image_misses_row", fmt.Sprintf("statement %d: row %s touched but absent from the %s image %v", si, k, name, img))
						}
					}
					for k, cells := range img {
						if !wantKeys[k] {
							fail(name+"_image_has_untouched_row", fmt.Sprintf("statement %d: row %s in the %s image was not touched", si, k, name))
							continue
						}
						row, ok := db[k]
						if !ok {
							fail(name+"_image_row_not_in_database", fmt.Sprintf("statement %d: row %s", si, k))
							continue
						}
						for ci, v := range cells {
							if ci >= len(row) || row[ci] != v {
								fail(name+"_image_wrong_content", fmt.Sprintf("statement %d row %s column %d: image %s database %v", si, k, ci, v, row))
							}
						}
						for ci := range wantCols {
							if _, ok := cells[ci]; !ok {
								fail(name+"_image_misses_column", fmt.Sprintf("statement %d row %s column %d", si, k, ci))
							}
						}
						for ci := range cells {
							if !wantCols[ci] {
								fail(name+"_image_has_untracked_column", fmt.Sprintf("statement %d row %s column %d", si, k, ci))
							}
						}
					}
				}
				switch step.st.Kind {
				case 'U':
					checkImage("before", it.before, step.before, touched)
					checkImage("after", it.after, step.after, touched)
				case 'D':
					checkImage("before", it.before, step.before, touched)
					if len(it.after) != 0 {
						fail("after_image_of_delete_not_empty", "")
					}
				case 'X':
					checkImage("after", it.after, step.after, touched)
					if len(it.before) != 0 {
						fail("before_image_of_insert_not_empty", "")
					}
				}
				for k := range changed {
					if !touched[k] {
						fail("changed_row_outside_where", fmt.Sprintf("statement %d row %s", si, k))
					}
				}
			}
			if class == "" && next != len(items) {
				fail("more_items_than_changing_statements", fmt.Sprintf("%d items, %d statements touched rows", len(items), next))
			}
		}
		c.Out.Oracle(cid, class == "", class, fmt.Sprintf("%s | only-care=%v ser=%s | obs=%s | toks=%s", detail, cs.OnlyCare, cs.Ser, obs, strings.Join(toks, " ")))
		tag := fmt.Sprintf("nontrivial=%d", b2i(nontrivial))
		if len(cs.Classes) > 0 {
			tag += " known=" + strings.Join(uniqStrings(cs.Classes), ",")
		}
		c.Out.Tag(cid, tag)
		c.Out.Count(fmt.Sprintf("onlycare.%v", cs.OnlyCare))
		c.Out.Count(fmt.Sprintf("stmts.%d", len(ltx.Stmts)))
		for _, st := range ltx.Stmts {
			c.Out.Count("kind." + string(st.Kind))
		}
		if localErr != nil {
			c.Out.Count("local.err")
		}
		for _, cl := range cs.Classes {
			c.Out.Count("class." + cl)
		}
		// leave the database clean: roll the branch back, drop the table
		for bi := len(brs) - 1; bi >= 0; bi-- {
			w.coord.RollbackBranch(w.coord.LastSession(), brs[bi], 5*time.Second)
		}
		w.Eng.Exec("DELETE FROM undo_log")
		w.Eng.DropTable(sc.Table)
	}
}

type undoItemView struct {
	kind   types.SQLType
	before map[string]map[int]string
	after  map[string]map[int]string
}

func sortedBoolKeys(m map[string]bool) []string {
	var ks []string
	for k := range m {
		ks = append(ks, k)
	}
	sort.Strings(ks)
	return ks
}
