package main

import (
	"errors"
	"context"
	"database/sql"
	"fmt"
	"strings"

	"seata.apache.org/seata-go/pkg/protocol/branch"
	"seata.apache.org/seata-go/pkg/rm"
	"seata.apache.org/seata-go/pkg/rm/tcc"
	"seata.apache.org/seata-go/pkg/rm/tcc/fence"
	"seata.apache.org/seata-go/pkg/rm/tcc/fence/enum"
	"seata.apache.org/seata-go/pkg/tm"

	"verifharness/memdb"
)

// ---- the fence driver under the TCC resource manager: an action whose confirm and cancel open their transaction
// through the fence driver and return whatever that gives them. Deliveries arrive as the coordinator's
// BranchCommit / BranchRollback at TCCResourceManager; a repeated delivery and a rollback before any try are
// answered "done" (the coordinator would repeat anything else for ever) and apply no business effect.

type fenceDriverAction struct {
	name string
	db   *sql.DB
	// twoTx: confirm and cancel do their work in TWO transactions, one after the other
	twoTx bool
	// asText: the method reports what BeginTx answered as a text (an application that formats its errors, or whose
	// business sits behind an RPC): the identity of the error is gone
	asText bool
}

func (a *fenceDriverAction) bump(ctx context.Context, col string) (bool, error) {
	tx, err := a.db.BeginTx(ctx, nil)
	if err != nil {
		return false, err // (an application that knows nothing of the fence's answers: it passes them on)
	}
	if _, err = tx.ExecContext(ctx, "UPDATE biz SET "+col+" = "+col+" + 1 WHERE id = 1"); err != nil {
		tx.Rollback()
		return false, err
	}
	return true, tx.Commit()
}
func (a *fenceDriverAction) Prepare(ctx context.Context, params interface{}) (bool, error) {
	return a.bump(ctx, "tries")
}
func (a *fenceDriverAction) phaseTwo(ctx context.Context, col string) (bool, error) {
	ok, err := a.bump(ctx, col)
	if err == nil && a.twoTx {
		ok, err = a.bump(ctx, col)
	}
	if err != nil && a.asText {
		return false, errors.New("business failed: " + err.Error())
	}
	if err != nil {
		err = fmt.Errorf("%s of %s: %w", col, a.name, err) // (wrapped, as applications do)
	}
	return ok, err
}
func (a *fenceDriverAction) Commit(ctx context.Context, bac *tm.BusinessActionContext) (bool, error) {
	return a.phaseTwo(ctx, "confirms")
}
func (a *fenceDriverAction) Rollback(ctx context.Context, bac *tm.BusinessActionContext) (bool, error) {
	return a.phaseTwo(ctx, "cancels")
}
func (a *fenceDriverAction) GetActionName() string { return a.name }

func runC06UnderRM(c *Ctx) {
	Boot()
	type variant struct {
		seq           string
		twoTx, asText bool
		// commitFault: the first COMMIT the database sees in the first delivery fails (for a rollback before any
		// try that is the commit of the fence transaction, which carries the suspension record)
		commitFault bool
	}
	var variants []variant
	for _, seq := range []string{"PCC", "PCCC", "PRR", "R", "RR", "RP", "PCR", "PRC"} {
		variants = append(variants, variant{seq: seq})
	}
	for _, seq := range []string{"PC", "PCC", "PR", "PRR"} {
		variants = append(variants, variant{seq: seq, twoTx: true})
	}
	for _, seq := range []string{"PCC", "PRR", "R", "RR"} {
		variants = append(variants, variant{seq: seq, asText: true})
	}
	variants = append(variants, variant{seq: "RP", commitFault: true}, variant{seq: "RRP", commitFault: true})
	for i, v := range variants {
		seq := v.seq
		cid := fmt.Sprintf("fd-rm-%d", i)
		if !c.Want(cid) {
			continue
		}
		e := memdb.New("fdrm")
		e.CreateFenceLogTable()
		e.CreateTable(memdb.TableDef{Name: "biz", Cols: []memdb.Column{{Name: "id", Type: memdb.TBigInt}, {Name: "tries", Type: memdb.TBigInt}, {Name: "confirms", Type: memdb.TBigInt}, {Name: "cancels", Type: memdb.TBigInt}}, PK: []string{"id"}})
		e.InsertRows("biz", memdb.Row{int64(1), int64(0), int64(0), int64(0)})
		fenceDriverSeq++
		name := fmt.Sprintf("verif-fence-%d", fenceDriverSeq)
		sql.Register(name, &fence.FenceDriver{TargetDriver: e.Driver()})
		db, err := sql.Open(name, "root:pw@tcp(127.0.0.1:3306)/fdrm")
		if err != nil {
			panic(err)
		}
		act := &fenceDriverAction{name: fmt.Sprintf("fdact%d", fenceDriverSeq), db: db, twoTx: v.twoTx, asText: v.asText}
		var answers []string
		crash := safeCall(func() {
			if _, err := tcc.NewTCCServiceProxy(act); err != nil {
				panic(err)
			}
			xid, branchID := "10.0.0.9:8091:4242", int64(7)
			for k, ph := range seq {
				if v.commitFault && k == 0 {
					e.AddFault(memdb.Fault{Kind: "commit", Nth: 1})
				} else {
					e.ClearFaults()
				}
				switch ph {
				case 'P':
					ctx := tm.InitSeataContext(context.Background())
					tm.SetXID(ctx, xid)
					tm.SetFencePhase(ctx, enum.FencePhasePrepare)
					tm.SetBusinessActionContext(ctx, &tm.BusinessActionContext{Xid: xid, BranchId: branchID, ActionName: act.name})
					if _, err := act.Prepare(ctx, nil); err != nil {
						answers = append(answers, "P:refused")
					} else {
						answers = append(answers, "P:ok")
					}
				case 'C':
					st, err := tcc.GetTCCResourceManagerInstance().BranchCommit(context.Background(), rm.BranchResource{Xid: xid, BranchId: branchID, ResourceId: act.name, BranchType: branch.BranchTypeTCC})
					answers = append(answers, fmt.Sprintf("C:%d:%v", st, err != nil))
				case 'R':
					st, err := tcc.GetTCCResourceManagerInstance().BranchRollback(context.Background(), rm.BranchResource{Xid: xid, BranchId: branchID, ResourceId: act.name, BranchType: branch.BranchTypeTCC})
					answers = append(answers, fmt.Sprintf("R:%d:%v", st, err != nil))
				}
			}
		})
		counts := "?"
		for _, r := range e.Dump("biz") {
			counts = fmt.Sprintf("%v/%v/%v", r[1], r[2], r[3])
		}
		open := e.OpenTxns()
		db.Close()
		// what the property says of the sequence: every effect at most once, never confirm and cancel, nothing for a
		// rollback before its try, a try after such a rollback refused; a delivery with nothing to do answered done
		class, detail := "", ""
		fail := func(cl, d string) {
			if class == "" {
				class, detail = cl, d
			}
		}
		var tries, confirms, cancels int
		fmt.Sscanf(counts, "%d/%d/%d", &tries, &confirms, &cancels)
		done := fmt.Sprintf("C:%d:false", branch.BranchStatusPhasetwoCommitted)
		undone := fmt.Sprintf("R:%d:false", branch.BranchStatusPhasetwoRollbacked)
		want := map[string]struct {
			counts  string
			answers []string
		}{
			"PCC":  {"1/1/0", []string{"P:ok", done, done}},
			"PCCC": {"1/1/0", []string{"P:ok", done, done, done}},
			"PRR":  {"1/0/1", []string{"P:ok", undone, undone}},
			"R":    {"0/0/0", []string{undone}},
			"RR":   {"0/0/0", []string{undone, undone}},
			"RP":   {"0/0/0", []string{undone, "P:refused"}},
		}
		if crash != "" {
			fail("crash", crash)
		}
		if !v.twoTx && (confirms > 1 || cancels > 1 || tries > 1) {
			fail("effect_applied_twice", counts)
		}
		if v.commitFault {
			// the suspension record of the first rollback could not be committed: either that delivery is answered
			// "not done" (and the coordinator repeats it), or - if it is answered done - the try that arrives late
			// must find the record and be refused
			firstDone := len(answers) > 0 && answers[0] == undone
			if firstDone && tries > 0 {
				fail("try_applied_after_acknowledged_rollback", fmt.Sprintf("answers %v, tries/confirms/cancels %s", answers, counts))
			}
			if seq == "RRP" && (len(answers) < 3 || answers[1] != undone || answers[2] != "P:refused" || tries > 0) {
				fail("try_applied_after_acknowledged_rollback", fmt.Sprintf("the repeated rollback records the suspension, the late try is refused: answers %v, counts %s", answers, counts))
			}
		}
		if confirms > 0 && cancels > 0 {
			fail("confirm_and_cancel_both_applied", counts)
		}
		twice := map[string]string{"PC": "1/2/0", "PCC": "1/2/0", "PR": "1/0/2", "PRR": "1/0/2"}
		if w, ok := want[seq]; (ok && !v.commitFault) || v.twoTx {
			if v.twoTx {
				// the two transactions of the one delivery that applies the phase both take effect, no delivery after it does
				w.counts = twice[seq]
				w.answers = []string{"P:ok"}
				for _, ph := range seq[1:] {
					if ph == 'C' {
						w.answers = append(w.answers, done)
					} else {
						w.answers = append(w.answers, undone)
					}
				}
			}
			if counts != w.counts {
				fail("business_effects", fmt.Sprintf("tries/confirms/cancels %s, expected %s", counts, w.counts))
			}
			if strings.Join(answers, " ") != strings.Join(w.answers, " ") {
				fail("delivery_with_nothing_to_do_not_answered_done", fmt.Sprintf("answers %v, expected %v", answers, w.answers))
			}
		}
		if len(open) > 0 {
			fail("fence_driver_left_a_transaction_open", fmt.Sprint(open))
		}
		c.Out.Case(cid, "C06", "skip", "skip")
		e.ClearFaults()
		c.Out.Oracle(cid, class == "", class, fmt.Sprintf("%s | seq=%s two-transactions=%v error-as-text=%v commit-fault=%v answers=%v counts=%s", detail, seq, v.twoTx, v.asText, v.commitFault, answers, counts))
		c.Out.Tag(cid, "nontrivial=1")
		c.Out.Count("fence-driver.under-rm")
	}
}
