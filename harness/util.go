package main

import (
	"bufio"
	"encoding/hex"
	"fmt"
	"os"
	"sort"
	"strings"
	"sync"
	"time"
)

// ---- deterministic PRNG (splitmix64): every random choice of a run derives from VERIF_SEED ----

type Rng struct{ s uint64 }

func NewRng(seed uint64) *Rng {
	// the state must not be an affine function of the seed (seed+1 would replay seed's stream shifted)
	r := &Rng{s: seed ^ 0x5851F42D4C957F2D}
	a := r.U64()
	b := r.U64()
	return &Rng{s: a ^ (b << 1) ^ (seed * 0xD1342543DE82EF95)}
}
func (r *Rng) U64() uint64 {
	r.s += 0x9E3779B97F4A7C15
	z := r.s
	z = (z ^ (z >> 30)) * 0xBF58476D1CE4E5B9
	z = (z ^ (z >> 27)) * 0x94D049BB133111EB
	return z ^ (z >> 31)
}
func (r *Rng) Intn(n int) int {
	if n <= 0 {
		return 0
	}
	return int(r.U64() % uint64(n))
}
func (r *Rng) Bool() bool        { return r.U64()&1 == 1 }
func (r *Rng) Chance(p int) bool { return r.Intn(100) < p }
func (r *Rng) Fork() *Rng        { return &Rng{s: r.U64()} }
func (r *Rng) Bytes(n int) []byte {
	b := make([]byte, n)
	for i := range b {
		b[i] = byte(r.U64())
	}
	return b
}

// ---- output: ops (C), implementation observations (I), oracle verdicts (O), distribution (D) ----

type Out struct {
	mu   sync.Mutex
	w    *bufio.Writer
	dist map[string]int
	n    int
}

func NewOut(path string) *Out {
	f, err := os.Create(path)
	if err != nil {
		panic(err)
	}
	return &Out{w: bufio.NewWriterSize(f, 1<<20), dist: map[string]int{}}
}

// Case emits one op line for the model and the implementation's observation for it.
func (o *Out) Case(id string, prop string, op string, implObs string) {
	o.mu.Lock()
	defer o.mu.Unlock()
	fmt.Fprintf(o.w, "C %s %s %s\n", id, prop, op)
	fmt.Fprintf(o.w, "I %s %s\n", id, implObs)
	o.n++
}

// Oracle records the verdict of the property evaluated on the implementation's behaviour alone.
// class "" = holds. nontrivial marks cases that count for distinct_nontrivial. known = finding id or "".
func (o *Out) Oracle(id string, ok bool, class string, detail string) {
	o.mu.Lock()
	defer o.mu.Unlock()
	if ok {
		fmt.Fprintf(o.w, "O %s ok\n", id)
	} else {
		fmt.Fprintf(o.w, "O %s fail %s %s\n", id, class, strings.ReplaceAll(detail, "\n", " "))
	}
}

// Tag attaches free-form attributes to a case: nontrivial flag, fragment flag, hash for distinctness.
func (o *Out) Tag(id string, kv string) {
	o.mu.Lock()
	defer o.mu.Unlock()
	fmt.Fprintf(o.w, "T %s %s\n", id, kv)
}

func (o *Out) Count(key string) {
	key = strings.Join(strings.Fields(key), "-") // one token per key in the output stream
	o.mu.Lock()
	o.dist[key]++
	o.mu.Unlock()
}

func (o *Out) Close() {
	keys := make([]string, 0, len(o.dist))
	for k := range o.dist {
		keys = append(keys, k)
	}
	sort.Strings(keys)
	for _, k := range keys {
		fmt.Fprintf(o.w, "D %s %d\n", k, o.dist[k])
	}
	o.w.Flush()
}

func hx(b []byte) string {
	if len(b) == 0 {
		return "-"
	}
	return hex.EncodeToString(b)
}

func unhx(s string) []byte {
	if s == "-" {
		return nil
	}
	b, err := hex.DecodeString(s)
	if err != nil {
		panic(err)
	}
	return b
}

// closeSoon closes something that may never come back from Close (a connection whose driver panicked inside
// database/sql keeps its lock for good): after the time limit the harness goes on without it
func closeSoon(closer interface{ Close() error }) {
	done := make(chan struct{})
	go func() { defer close(done); safeCall(func() { closer.Close() }) }()
	select {
	case <-done:
	case <-time.After(3 * time.Second):
	}
}
