package main

import (
	"context"
	"database/sql"
	"fmt"
	"strings"
	"sync"
	"time"

	"seata.apache.org/seata-go/pkg/protocol/message"
)

func init() { props["C03"] = runC03 }

func runC03(c *Ctx) {
	w := GetATWorld()
	runC03Keys(c, w)
	runC03SFU(c, w)
	runC03Hist(c, w)
}

// ---- (a) the lock keys sent with the registration cover every row the local transaction wrote

func runC03Keys(c *Ctx, w *ATWorld) {
	rng := NewRng(c.Seed)
	n := c.Budget(200, 6000)
	for i := 0; i < n; i++ {
		r := rng.Fork()
		cid := fmt.Sprintf("c03-k%d", i)
		o := ATGenOpts{NullableVals: r.Chance(50), StrPK: r.Chance(40), BigInts: r.Chance(10), CollideKeys: r.Chance(15), AllowFindings: r.Chance(15), Upserts: r.Chance(30)}
		cs := genATCase(r, w, cid, o)
		cs.Locals = cs.Locals[:1]
		if len(cs.Rows) < 2 && r.Chance(80) {
			cs.Rows = genRows(r, cs.Schema, 2+r.Intn(4))
		}
		if i%12 == 0 {
			// directed: a character key whose text ends with the separators of the lock-key syntax, touched by
			// each statement form on its own (the key is then the last thing in the registration text)
			sc := &ATSchema{Table: w.NewTableName("ck"), Cols: []ATCol{{Name: "id", Typ: 's'}, {Name: "c1", Typ: 'i'}}, PK: []int{0}}
			key := []string{"k:", "urn:doc:", "a;", "x,"}[(i/12)%4]
			cs.Schema = sc
			cs.Rows = [][]ATVal{{{K: 's', S: "plain"}, {K: 'i', I: 1}}, {{K: 's', S: key}, {K: 'i', I: 2}}}
			where := &ATCond{Op: "cmp:e", E: []*ATExpr{{K: 'c', Col: 0}, {K: 'a', Val: ATVal{K: 's', S: key}}}}
			var st *ATStmt
			switch (i / 48) % 3 {
			case 0:
				st = &ATStmt{Kind: 'U', Sets: []ATSet{{Col: 1, Plus: -1, E: &ATExpr{K: 'l', Val: ATVal{K: 'i', I: 9}}}}, Where: where}
			case 1:
				st = &ATStmt{Kind: 'D', Where: where}
			default:
				cs.Rows = cs.Rows[:1]
				st = &ATStmt{Kind: 'X', Rows: [][]*ATExpr{{{K: 'a', Val: ATVal{K: 's', S: key}}, {K: 'l', Val: ATVal{K: 'i', I: 3}}}}}
			}
			if strings.ContainsAny(key, ";,") {
				st.Classes = append(st.Classes, "lock_key_separator_in_value")
			}
			cs.Locals = []ATLocalTx{{Stmts: []*ATStmt{st}}}
		}
		cs.Classes = nil
		for _, st := range cs.Locals[0].Stmts {
			cs.Classes = append(cs.Classes, st.Classes...)
		}
		if !c.Want(cid) {
			continue
		}
		lo := execLocalObserved(w, cs, cid)
		sc := cs.Schema
		obs := lo.obs
		if i := strings.Index(obs, ":img="); i >= 0 {
			obs = obs[:i] // the keys only; the images are C18's business
		}
		c.Out.Case(cid, "C03", strings.Join(append(cs.headerToks(), lo.toks...), " "), obs)
		class, detail := "", ""
		fail := func(cl, d string) {
			if class == "" {
				class, detail = cl, d
			}
		}
		if lo.crash != "" {
			fail("crash", lo.crash)
		}
		written := map[string]bool{}
		if lo.localErr == nil {
			for _, step := range lo.steps {
				for k, row := range step.before {
					if a, ok := step.after[k]; !ok || strings.Join(a, ",") != strings.Join(row, ",") {
						written[k] = true
					}
				}
				for k := range step.after {
					if _, ok := step.before[k]; !ok {
						written[k] = true
					}
				}
			}
			// the raw key text: `table:k1_k2,k1_k2;table:...`
			sent := map[string]bool{}
			if lo.rawKeys != "" {
				for _, seg := range strings.Split(lo.rawKeys, ";") {
					if seg == "" {
						continue
					}
					ci := strings.Index(seg, ":")
					if ci < 0 {
						fail("malformed_lock_key", lo.rawKeys)
						continue
					}
					if !strings.EqualFold(seg[:ci], sc.Table) {
						fail("lock_key_names_another_table", seg)
					}
					for _, k := range strings.Split(seg[ci+1:], ",") {
						sent[k] = true
					}
				}
			}
			for k := range written {
				if !sent[k] {
					fail("written_row_not_locked", fmt.Sprintf("row %s was written but the registration carried %q", k, lo.rawKeys))
				}
			}
			if len(written) > 0 && len(lo.brs) == 0 {
				fail("written_row_not_locked", "rows written but no branch registered")
			}
		}
		c.Out.Oracle(cid, class == "", class, fmt.Sprintf("%s | obs=%s | toks=%s", detail, lo.obs, strings.Join(lo.toks, " ")))
		tag := fmt.Sprintf("nontrivial=%d", b2i(len(written) > 0))
		if len(cs.Classes) > 0 {
			tag += " known=" + strings.Join(uniqStrings(cs.Classes), ",")
		}
		c.Out.Tag(cid, tag)
		c.Out.Count("keys.cases")
		if len(sc.PK) > 1 {
			c.Out.Count("keys.composite")
		}
		if sc.Cols[sc.PK[len(sc.PK)-1]].Typ == 's' {
			c.Out.Count("keys.stringpk")
		}
		for bi := len(lo.brs) - 1; bi >= 0; bi-- {
			w.coord.RollbackBranch(w.coord.LastSession(), lo.brs[bi], 5*time.Second)
		}
		w.Eng.Exec("DELETE FROM undo_log")
		w.Eng.DropTable(sc.Table)
	}
}

// ---- (b) SELECT ... FOR UPDATE asks the coordinator before it returns rows

func runC03SFU(c *Ctx, w *ATWorld) {
	rng := NewRng(c.Seed + 77)
	n := c.Budget(60, 1500)
	for i := 0; i < n; i++ {
		r := rng.Fork()
		cid := fmt.Sprintf("c03-s%d", i)
		cs := genATCase(r, w, cid, ATGenOpts{StrPK: r.Chance(30)})
		if len(cs.Rows) < 3 {
			cs.Rows = genRows(r, cs.Schema, 3+r.Intn(3))
		}
		explicit := r.Bool()
		reply := []string{"lockable", "conflict", "failed"}[r.Intn(3)]
		// WHERE: one row by key, several rows, or none
		sc := cs.Schema
		var where *ATCond
		switch r.Intn(3) {
		case 0:
			row := cs.Rows[r.Intn(len(cs.Rows))]
			where = &ATCond{Op: "cmp:e", E: []*ATExpr{{K: 'c', Col: sc.PK[0]}, {K: 'a', Val: row[sc.PK[0]]}}}
		case 1:
			where = &ATCond{Op: "T"}
		default:
			where = &ATCond{Op: "cmp:e", E: []*ATExpr{{K: 'c', Col: sc.PK[0]}, {K: 'a', Val: keyVal(sc, sc.PK[0], "424242")}}}
		}
		if !c.Want(cid) {
			continue
		}
		w.SetUndoConfig(cs.Ser, cs.Comp, cs.Validate, cs.OnlyCare)
		sc.Create(w.Eng)
		for _, row := range cs.Rows {
			w.Eng.InsertRows(sc.Table, toMemRow(row))
		}
		st := &ATStmt{Kind: 'D', Where: where}
		wsql, wargs := st.WhereSQL(sc)
		matched, _ := tableByKey(context.Background(), w.Bare, sc, wsql, wargs)
		names := make([]string, len(sc.Cols))
		for k, col := range sc.Cols {
			names[k] = col.Name
		}
		q := "SELECT " + strings.Join(names, ", ") + " FROM " + sc.Table + wsql + " FOR UPDATE"
		w.coord.ResetLog()
		w.Eng.ResetJournal()
		var queriedKeys []string
		queriedAt := -1
		w.coord.Script = func(s *FakeSession, kind string, m message.RpcMessage) Action {
			if b, ok := m.Body.(message.GlobalLockQueryRequest); ok {
				queriedKeys = append(queriedKeys, b.LockKey)
				queriedAt = len(w.Eng.Journal())
				switch reply {
				case "lockable":
					return Action{Body: message.GlobalLockQueryResponse{AbstractTransactionResponse: okHead(), Lockable: true}}
				case "conflict":
					return Action{Body: message.GlobalLockQueryResponse{AbstractTransactionResponse: okHead(), Lockable: false}}
				default:
					return Action{Body: message.GlobalLockQueryResponse{AbstractTransactionResponse: failHead("lock table unavailable")}}
				}
			}
			return Action{}
		}
		var qerr error
		got := 0
		locksAfter := 0
		crash := safeCall(func() {
			InGlobalTx(cid, func(ctx context.Context) error {
				scan := func(rows *sql.Rows) {
					for rows.Next() {
						got++
					}
					rows.Close()
				}
				if explicit {
					tx, err := w.DB.BeginTx(ctx, nil)
					if err != nil {
						qerr = err
						return nil
					}
					rows, err := tx.QueryContext(ctx, q, wargs...)
					qerr = err
					if err == nil {
						scan(rows)
					}
					locksAfter = len(w.Eng.Locks()[strings.ToLower(sc.Table)]) + len(w.Eng.Locks()[sc.Table])
					tx.Rollback()
				} else {
					rows, err := w.DB.QueryContext(ctx, q, wargs...)
					qerr = err
					if err == nil {
						scan(rows)
					}
					locksAfter = len(w.Eng.Locks()[strings.ToLower(sc.Table)]) + len(w.Eng.Locks()[sc.Table])
				}
				return nil
			})
		})
		w.coord.Script = nil
		nm := len(matched)
		mclass := nm
		if mclass > 1 {
			mclass = 2
		}
		obs := fmt.Sprintf("rows=%d err=%d queried=%d locks=%d", b2i(qerr == nil), b2i(qerr != nil), b2i(len(queriedKeys) > 0), b2i(locksAfter > 0))
		c.Out.Case(cid, "C03", fmt.Sprintf("sfu %d %d %s", b2i(explicit), nm, reply), obs)
		class, detail := "", ""
		fail := func(cl, d string) {
			if class == "" {
				class, detail = cl, d
			}
		}
		if crash != "" {
			fail("crash", crash)
		}
		if qerr == nil {
			if len(queriedKeys) == 0 && nm > 0 {
				fail("rows_returned_without_lock_query", "")
			}
			if reply != "lockable" {
				fail("rows_returned_despite_conflict", reply)
			}
			if got != nm {
				fail("wrong_rows", fmt.Sprintf("%d rows returned, %d match", got, nm))
			}
			// the query must name every selected row
			all := strings.Join(queriedKeys, ";")
			for k := range matched {
				found := false
				for _, seg := range strings.Split(all, ";") {
					if ci := strings.Index(seg, ":"); ci >= 0 {
						for _, kk := range strings.Split(seg[ci+1:], ",") {
							if kk == k {
								found = true
							}
						}
					}
				}
				if !found {
					fail("selected_row_not_in_lock_query", fmt.Sprintf("row %s, query %q", k, all))
				}
			}
		} else {
			if reply == "lockable" {
				fail("failed_although_lockable", qerr.Error())
			}
			if locksAfter > 0 {
				fail("savepoint_rollback_keeps_row_locks", fmt.Sprintf("%d local row locks still held after the conflict", locksAfter))
			}
		}
		if len(w.Eng.OpenTxns()) > 0 {
			fail("transaction_left_open", fmt.Sprint(w.Eng.OpenTxns()))
		}
		// every statement the executor issues on its own (savepoint, key query, release of the local locks)
		// must go through: a failing ROLLBACK TO leaves whatever it was meant to release
		for _, e := range w.Eng.Journal() {
			if e.Err != "" {
				fail("cleanup_statement_failed", fmt.Sprintf("%s: %s", e.SQL, e.Err))
			}
		}
		_ = queriedAt
		c.Out.Oracle(cid, class == "", class, fmt.Sprintf("%s | explicit=%v matched=%d reply=%s | %s | q=%s", detail, explicit, nm, reply, obs, q))
		tag := "nontrivial=1"
		if explicit && reply != "lockable" && nm > 0 {
			tag += " known=savepoint_rollback_keeps_row_locks"
		}
		c.Out.Tag(cid, tag)
		c.Out.Count(fmt.Sprintf("sfu.explicit=%v.reply=%s.matched=%d", explicit, reply, mclass))
		w.Eng.DropTable(sc.Table)
	}
}

// ---- (c) two or three global transactions on overlapping rows under a coordinator lock table

type lockTable struct {
	mu     sync.Mutex
	holder map[string]string // key text -> xid
}

func (lt *lockTable) keysOf(lockKey string) []string {
	var ks []string
	for _, seg := range strings.Split(lockKey, ";") {
		if ci := strings.Index(seg, ":"); ci >= 0 {
			for _, k := range strings.Split(seg[ci+1:], ",") {
				if k != "" {
					ks = append(ks, seg[:ci]+":"+k)
				}
			}
		}
	}
	return ks
}

func (lt *lockTable) tryAcquire(xid, lockKey string) bool {
	lt.mu.Lock()
	defer lt.mu.Unlock()
	ks := lt.keysOf(lockKey)
	for _, k := range ks {
		if h, ok := lt.holder[k]; ok && h != xid {
			return false
		}
	}
	for _, k := range ks {
		lt.holder[k] = xid
	}
	return true
}

func (lt *lockTable) release(xid string) {
	lt.mu.Lock()
	defer lt.mu.Unlock()
	for k, h := range lt.holder {
		if h == xid {
			delete(lt.holder, k)
		}
	}
}

func runC03Hist(c *Ctx, w *ATWorld) {
	rng := NewRng(c.Seed + 999)
	n := c.Budget(60, 2000)
	for i := 0; i < n; i++ {
		r := rng.Fork()
		cid := fmt.Sprintf("c03-h%d", i)
		cs := genATCase(r, w, cid, ATGenOpts{StrPK: r.Chance(25)})
		if len(cs.Rows) < 3 {
			cs.Rows = genRows(r, cs.Schema, 3+r.Intn(2))
		}
		sc := cs.Schema
		nTx := 2 + r.Intn(2)
		// events: each global transaction has 1-2 local transactions then finishes; a random interleaving
		type ev struct {
			x   int
			ltx *ATLocalTx
		}
		var pending [][]ev
		taken := map[string]bool{}
		for _, row := range cs.Rows {
			k := ""
			for _, p := range sc.PK {
				k += row[p].Cell() + "/"
			}
			taken[k] = true
		}
		for x := 1; x <= nTx; x++ {
			var seq []ev
			for l := 0; l < 1+r.Intn(2); l++ {
				// statements aimed at few rows so that transactions overlap on some
				row := cs.Rows[r.Intn(len(cs.Rows))]
				where := &ATCond{Op: "cmp:e", E: []*ATExpr{{K: 'c', Col: sc.PK[0]}, {K: 'a', Val: row[sc.PK[0]]}}}
				var st *ATStmt
				switch r.Intn(4) {
				case 0:
					st = &ATStmt{Kind: 'D', Where: where}
				case 1:
					st = genInsert(r, sc, taken, ATGenOpts{})
				default:
					st = genUpdate(r, sc, ATGenOpts{})
					st.Where = where
				}
				seq = append(seq, ev{x: x, ltx: &ATLocalTx{Stmts: []*ATStmt{st}}})
			}
			seq = append(seq, ev{x: x})
			pending = append(pending, seq)
		}
		var sched []ev
		for len(pending) > 0 {
			k := r.Intn(len(pending))
			sched = append(sched, pending[k][0])
			pending[k] = pending[k][1:]
			if len(pending[k]) == 0 {
				pending = append(pending[:k], pending[k+1:]...)
			}
		}
		if !c.Want(cid) {
			continue
		}
		w.SetUndoConfig(cs.Ser, cs.Comp, cs.Validate, cs.OnlyCare)
		sc.Create(w.Eng)
		for _, row := range cs.Rows {
			w.Eng.InsertRows(sc.Table, toMemRow(row))
		}
		lt := &lockTable{holder: map[string]string{}}
		w.coord.ResetLog()
		w.coord.Script = func(s *FakeSession, kind string, m message.RpcMessage) Action {
			switch b := m.Body.(type) {
			case message.BranchRegisterRequest:
				if !lt.tryAcquire(b.Xid, b.LockKey) {
					return Action{Body: message.BranchRegisterResponse{AbstractTransactionResponse: failHead("lock conflict")}}
				}
			case message.GlobalLockQueryRequest:
				lt.mu.Lock()
				ok := true
				for _, k := range lt.keysOf(b.LockKey) {
					if h, held := lt.holder[k]; held && h != b.Xid {
						ok = false
					}
				}
				lt.mu.Unlock()
				return Action{Body: message.GlobalLockQueryResponse{AbstractTransactionResponse: okHead(), Lockable: ok}}
			}
			return Action{}
		}
		// each global transaction runs in its own goroutine, driven step by step from here
		type cmd struct {
			ltx  *ATLocalTx
			done chan bool
		}
		chans := map[int]chan cmd{}
		var wg sync.WaitGroup
		xids := map[int]string{}
		var xmu sync.Mutex
		for x := 1; x <= nTx; x++ {
			ch := make(chan cmd)
			chans[x] = ch
			wg.Add(1)
			go func(x int, ch chan cmd) {
				defer wg.Done()
				safeCall(func() {
					InGlobalTx(fmt.Sprintf("%s-%d", cid, x), func(ctx context.Context) error {
						xmu.Lock()
						xids[x] = tmXID(ctx)
						xmu.Unlock()
						for cm := range ch {
							if cm.ltx == nil {
								cm.done <- true
								break
							}
							q, args, _ := cm.ltx.Stmts[0].Render(sc)
							_, err := w.DB.ExecContext(ctx, q, args...)
							cm.done <- err == nil
						}
						return nil
					})
				})
			}(x, ch)
		}
		var toks, outs []string
		class, detail := "", ""
		writtenBy := map[string]int{} // row key -> active global transaction that wrote it
		for _, e := range sched {
			done := make(chan bool, 1)
			if e.ltx == nil {
				toks = append(toks, fmt.Sprintf("Z%d", e.x))
				chans[e.x] <- cmd{done: done}
				<-done
				close(chans[e.x])
				// the global transaction ends (committed by its initiator): the coordinator releases its locks
				time.Sleep(2 * time.Millisecond)
				xmu.Lock()
				xid := xids[e.x]
				xmu.Unlock()
				lt.release(xid)
				for k, x := range writtenBy {
					if x == e.x {
						delete(writtenBy, k)
					}
				}
				outs = append(outs, "ok")
				continue
			}
			_, _, tok := e.ltx.Stmts[0].Render(sc)
			toks = append(toks, fmt.Sprintf("E%d", e.x), tok)
			before := rowsByKey(w, sc)
			chans[e.x] <- cmd{ltx: e.ltx, done: done}
			ok := <-done
			after := rowsByKey(w, sc)
			changed := map[string]bool{}
			for k, row := range before {
				if a, has := after[k]; !has || strings.Join(a, ",") != strings.Join(row, ",") {
					changed[k] = true
				}
			}
			for k := range after {
				if _, has := before[k]; !has {
					changed[k] = true
				}
			}
			for k := range changed {
				if other, held := writtenBy[k]; held && other != e.x {
					class, detail = "dirty_write", fmt.Sprintf("global transaction %d wrote row %s which the still-active global transaction %d had written", e.x, k, other)
				}
				writtenBy[k] = e.x
			}
			if !ok && len(changed) > 0 {
				class, detail = "failed_local_transaction_changed_rows", fmt.Sprint(changed)
			}
			if ok {
				outs = append(outs, "ok")
			} else {
				outs = append(outs, "no")
			}
		}
		wg.Wait()
		w.coord.Script = nil
		obs := strings.Join(outs, " ") + " t=" + w.DumpTable(sc.Table)
		c.Out.Case(cid, "C03", strings.Join(append(append([]string{"hist", cs.cfgTok()}, cs.headerToks()[2:]...), toks...), " "), obs)
		c.Out.Oracle(cid, class == "", class, detail+" | "+obs+" | "+strings.Join(toks, " "))
		c.Out.Tag(cid, "nontrivial=1")
		c.Out.Count(fmt.Sprintf("hist.tx=%d", nTx))
		if strings.Contains(obs, "no") {
			c.Out.Count("hist.with-refusal")
		}
		w.Eng.Exec("DELETE FROM undo_log")
		w.Eng.DropTable(sc.Table)
	}
}
