package main

import (
	"context"
	"fmt"

	"verifharness/memdb"
)

func init() { props["SMOKEAUTO"] = runSmokeAuto }

func runSmokeAuto(c *Ctx) {
	w := GetATWorld()
	w.SetUndoConfig("json", "None", true, false)
	t := w.NewTableName("auto")
	w.Eng.CreateTable(memdb.TableDef{Name: t, Cols: []memdb.Column{{Name: "id", Type: memdb.TBigInt, AutoInc: true}, {Name: "n", Type: memdb.TBigInt, Nullable: true}}, PK: []string{"id"}})
	w.Eng.InsertRows(t, memdb.Row{int64(3), int64(10)})
	for _, q := range []string{
		"INSERT INTO " + t + " (n) VALUES (?)",
		"INSERT INTO " + t + " (id, n) VALUES (NULL, ?)",
		"INSERT INTO " + t + " (id, n) VALUES (DEFAULT, ?)",
		"INSERT INTO " + t + " (n) VALUES (?), (8)",
		"INSERT INTO " + t + " (n) VALUES (7)",
	} {
		w.Eng.ResetJournal()
		w.coord.ResetLog()
		xid, _ := InGlobalTx("sa", func(ctx context.Context) error {
			var args []interface{}
			for i := 0; i < len(q); i++ {
				if q[i] == '?' {
					args = append(args, 5)
				}
			}
			r, err := w.DB.ExecContext(ctx, q, args...)
			var id int64
			if err == nil {
				id, _ = r.LastInsertId()
			}
			fmt.Println("Q", q, "-> err", err, "lastid", id)
			return nil
		})
		for _, b := range w.coord.RegisteredBranches(xid) {
			fmt.Println("   branch keys", b.LockKey)
		}
		for _, e := range w.Eng.Journal() {
			if e.Kind == "connect" || e.Table == "COLUMNS" || e.Table == "STATISTICS" {
				continue
			}
			fmt.Println("   J", e.Kind, e.SQL, e.Args, e.Err)
		}
		fmt.Println("   undo", w.UndoLogRows(), "table", w.DumpTable(t))
		w.Eng.Exec("DELETE FROM undo_log")
	}
}
