package main

import (
	"context"
	"fmt"
	"strings"
	"time"

	"seata.apache.org/seata-go/pkg/protocol/branch"
	"seata.apache.org/seata-go/pkg/protocol/message"

	"verifharness/memdb"
)

// ---- what a failed branch leaves behind on a connection the application keeps (db.Conn), AT mode: the NEXT
// statement of the global transaction on that connection is a branch like any other — BEGIN, registration, the
// statement, its undo log, COMMIT — never a bare statement the database commits on its own.

func runC02Followup(c *Ctx, w *ATWorld) {
	faults := []string{"none", "begin", "register", "stmt", "undo", "commit"}
	n := 0
	for _, fault := range faults {
		for _, explicit1 := range []bool{false, true} {
			for _, explicit2 := range []bool{false, true} {
				n++
				cid := fmt.Sprintf("c02-f%d", n)
				if !c.Want(cid) {
					continue
				}
				table := w.NewTableName("atf")
				w.Eng.CreateTable(memdb.TableDef{Name: table, Cols: []memdb.Column{{Name: "id", Type: memdb.TBigInt}, {Name: "n", Type: memdb.TBigInt, Nullable: true}}, PK: []string{"id"}})
				w.Eng.InsertRows(table, memdb.Row{int64(1), int64(0)}, memdb.Row{int64(2), int64(0)})
				w.SetUndoConfig("json", "None", true, false)
				w.Eng.Exec("DELETE FROM undo_log")
				w.coord.ResetLog()
				w.Eng.ResetJournal()
				refuse := fault == "register"
				w.coord.Script = func(s *FakeSession, kind string, m message.RpcMessage) Action {
					if b, ok := m.Body.(message.BranchRegisterRequest); ok && b.BranchType == branch.BranchTypeAT && refuse {
						refuse = false // the first registration only
						if n%2 == 0 {
							// (no registration either: the request is answered with a message of another type)
							return Action{Body: message.GlobalBeginResponse{AbstractTransactionResponse: okHead(), Xid: "not-a-register-response"}}
						}
						return Action{Body: message.BranchRegisterResponse{AbstractTransactionResponse: failHead("refused")}}
					}
					return Action{}
				}
				switch fault {
				case "begin":
					w.Eng.AddFault(memdb.Fault{Kind: "begin", Nth: 1})
				case "stmt":
					w.Eng.AddFault(memdb.Fault{Kind: "update", Table: table, Nth: 1})
				case "undo":
					w.Eng.AddFault(memdb.Fault{Kind: "insert", Table: "undo_log", Nth: 1})
				case "commit":
					w.Eng.AddFault(memdb.Fault{Kind: "commit", Nth: 1})
				}
				stmts0 := w.Eng.OpenStmts()
				var errs [2]error
				var xid string
				crash := safeCall(func() {
					xid, _ = InGlobalTx(cid, func(ctx context.Context) error {
						// (nothing here may wait for ever: a connection an earlier case wedged is that case's finding)
						ctx, stop := context.WithTimeout(ctx, 20*time.Second)
						defer stop()
						conn, cerr := w.DB.Conn(ctx)
						if cerr != nil {
							panic(cerr)
						}
						defer closeSoon(conn)
						run := func(k int, explicit bool) {
							q := "UPDATE " + table + " SET n = 7 WHERE id = ?"
							if explicit {
								tx, err := conn.BeginTx(ctx, nil)
								if err != nil {
									errs[k] = err
									return
								}
								// the statements of a local transaction begun under the global transaction belong to it
								// whatever context they are issued with: tx.Exec(query) is tx.ExecContext(context.Background(), query)
								stmtCtx := ctx
								if fault == "none" && k == 1 {
									stmtCtx = context.Background()
								}
								if _, err = tx.ExecContext(stmtCtx, q, k+1); err != nil {
									errs[k] = err
									tx.Rollback()
									return
								}
								errs[k] = tx.Commit()
								return
							}
							_, errs[k] = conn.ExecContext(ctx, q, k+1)
						}
						run(0, explicit1)
						w.Eng.ClearFaults()
						run(1, explicit2)
						return nil
					})
				})
				w.Eng.ClearFaults()
				w.coord.Script = nil
				// ---- the trace of the connection: is every UPDATE inside a local transaction, with its undo log?
				var toks []string
				inTx, bare, withoutUndo := false, 0, 0
				updatesInTx, undoInTx := 0, 0
				for _, e := range w.Eng.Journal() {
					isUndo := strings.EqualFold(e.Table, "undo_log")
					tok := ""
					switch {
					case e.Kind == "begin":
						tok = "B"
					case e.Kind == "commit":
						tok = "c"
					case e.Kind == "rollback":
						tok = "r"
					case e.Kind == "update" && strings.EqualFold(e.Table, table):
						tok = "x"
					case e.Kind == "insert" && isUndo:
						tok = "u"
					default:
						continue
					}
					if e.Err != "" {
						tok += "!"
					}
					toks = append(toks, tok)
					switch tok {
					case "B":
						inTx, updatesInTx, undoInTx = true, 0, 0
					case "x":
						if !inTx {
							bare++
						} else {
							updatesInTx++
						}
					case "u":
						undoInTx++
					case "c":
						if inTx && updatesInTx > 0 && undoInTx == 0 {
							withoutUndo++
						}
						inTx = false
					case "c!", "r", "r!":
						inTx = false
					}
				}
				branches := len(w.coord.RegisteredBranches(xid))
				final := w.DumpTable(table)
				// for the model (op `atconn`): the case as operations on the connection, and for every UPDATE at the
				// database: belongs to the global transaction (all of them do) / inside a local transaction /
				// recorded (its local transaction wrote an undo log before it committed). Only where the model
				// speaks: no fault, or a BEGIN the driver refuses.
				if fault == "none" || fault == "begin" {
					var mops, seen []string
					for k, explicit := range []bool{explicit1, explicit2} {
						bf := b2i(fault == "begin" && k == 0)
						if !explicit {
							mops = append(mops, fmt.Sprintf("s:1:%d", bf))
							continue
						}
						mops = append(mops, fmt.Sprintf("b:1:%d", bf))
						if bf == 1 {
							continue
						}
						g := 1
						if fault == "none" && k == 1 {
							g = 0 // issued with context.Background()
						}
						mops = append(mops, fmt.Sprintf("s:%d:0", g), "e")
					}
					// walk the journal again: one entry per UPDATE
					in, sawUndo := false, false
					var pending []int
					for _, tk := range toks {
						switch tk {
						case "B":
							in, sawUndo, pending = true, false, nil
						case "x":
							seen = append(seen, fmt.Sprintf("1%d?", b2i(in)))
							if in {
								pending = append(pending, len(seen)-1)
							} else {
								seen[len(seen)-1] = "100"
							}
						case "u":
							sawUndo = true
						case "c", "r", "c!", "r!":
							for _, at := range pending {
								seen[at] = fmt.Sprintf("11%d", b2i(sawUndo && tk == "c"))
							}
							in, pending = false, nil
						}
					}
					obs := "seen=-"
					if len(seen) > 0 {
						obs = "seen=" + strings.Join(seen, ",")
					}
					c.Out.Case(cid, "C02", "atconn "+strings.Join(mops, " "), obs)
				} else {
					c.Out.Case(cid, "C02", "skip", "skip")
				}
				class, detail := "", ""
				fail := func(cl, d string) {
					if class == "" {
						class, detail = cl, d
					}
				}
				if crash != "" {
					fail("crash", crash)
				}
				if bare > 0 {
					fail("statement_outside_any_branch", fmt.Sprintf("%d UPDATE(s) reached the database outside BEGIN … COMMIT (committed by the database on its own)", bare))
				}
				if withoutUndo > 0 {
					fail("committed_without_undo_log", fmt.Sprintf("%d local transaction(s) with a write committed without an undo-log row", withoutUndo))
				}
				if errs[1] != nil {
					fail("next_statement_refused", errs[1].Error())
				}
				if errs[1] == nil && !strings.Contains(final, "i2,i7") {
					fail("next_statement_lost", "the second statement answered ok, its row is unchanged: "+final)
				}
				if fault != "none" && errs[0] == nil {
					fail("failed_branch_reported_ok", "the first statement answered ok although its "+fault+" failed")
				}
				if fault != "none" && strings.Contains(final, "i1,i7") {
					fail("failed_branch_applied", "the row of the failed statement is changed: "+final)
				}
				if len(w.Eng.OpenTxns()) > 0 {
					fail("transaction_left_open", fmt.Sprint(w.Eng.OpenTxns()))
				}
				if left := w.Eng.OpenStmts() - stmts0; left > 0 {
					fail("prepared_statement_left_open", fmt.Sprintf("%d server-side prepared statement(s) prepared during the case and never closed", left))
				}
				c.Out.Oracle(cid, class == "", class, fmt.Sprintf("%s | fault=%s explicit=%v,%v errs=%v,%v branches=%d trace=%s final=%s", detail, fault, explicit1, explicit2, errs[0] != nil, errs[1] != nil, branches, strings.Join(toks, " "), final))
				c.Out.Tag(cid, "nontrivial=1")
				c.Out.Count("followup." + fault)
				// finish the global transaction's branches, leave nothing behind
				for _, b := range w.coord.RegisteredBranches(xid) {
					w.coord.RollbackBranch(w.coord.LastSession(), b, 3*time.Second)
				}
				w.DB.SetMaxIdleConns(0)
				w.DB.SetMaxIdleConns(2)
				w.Eng.Exec("DELETE FROM undo_log")
				w.Eng.DropTable(table)
			}
		}
	}
}
