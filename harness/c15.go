package main

import (
	"context"
	"errors"
	"fmt"
	"sort"
	"strings"
	"sync"
	"time"

	"seata.apache.org/seata-go/pkg/protocol/branch"
	"seata.apache.org/seata-go/pkg/protocol/codec"
	"seata.apache.org/seata-go/pkg/protocol/message"
	sgetty "seata.apache.org/seata-go/pkg/remoting/getty"
	"seata.apache.org/seata-go/pkg/rm"
)

func init() { props["C15"] = runC15 }

// stubRM is a resource manager whose phase-two answers are scripted per (xid, branch id).
type stubRM struct {
	bt      branch.BranchType
	mu      sync.Mutex
	script  map[string]string // "xid/branch" -> "s<status>" | "e"
	calls   map[string]int
	wrongRM int
	retired bool // another manager has been registered for this branch type since
	// working: called (outside the lock) while the manager "works" on a request; lets a case do something
	// between the arrival of a request and its answer
	working func(key string)
}

func (s *stubRM) answer(kind string, r rm.BranchResource) (branch.BranchStatus, error) {
	key := fmt.Sprintf("%s/%d", r.Xid, r.BranchId)
	s.mu.Lock()
	oc, ok := s.script[key]
	s.calls[kind+":"+key]++
	if !ok || s.retired {
		s.wrongRM++
	}
	retired := s.retired
	working := s.working
	s.mu.Unlock()
	if working != nil {
		working(key)
	}
	if retired {
		return branch.BranchStatusUnknown, errors.New("this manager has been replaced")
	}
	if !ok || oc == "e" {
		return branch.BranchStatusUnknown, errors.New("manager failed")
	}
	var st int
	fmt.Sscanf(oc[1:], "%d", &st)
	return branch.BranchStatus(st), nil
}
func (s *stubRM) BranchCommit(ctx context.Context, r rm.BranchResource) (branch.BranchStatus, error) {
	return s.answer("C", r)
}
func (s *stubRM) BranchRollback(ctx context.Context, r rm.BranchResource) (branch.BranchStatus, error) {
	return s.answer("R", r)
}
func (s *stubRM) BranchRegister(ctx context.Context, p rm.BranchRegisterParam) (int64, error) {
	return 0, nil
}
func (s *stubRM) BranchReport(ctx context.Context, p rm.BranchReportParam) error { return nil }
func (s *stubRM) LockQuery(ctx context.Context, p rm.LockQueryParam) (bool, error) {
	return true, nil
}
func (s *stubRM) RegisterResource(resource rm.Resource) error   { return nil }
func (s *stubRM) UnregisterResource(resource rm.Resource) error { return nil }
func (s *stubRM) GetCachedResources() *sync.Map                 { return &sync.Map{} }
func (s *stubRM) GetBranchType() branch.BranchType              { return s.bt }

func runC15(c *Ctx) {
	coord := Boot()
	coord.Script = nil
	stubs := map[int]*stubRM{}
	for _, bt := range []branch.BranchType{branch.BranchTypeAT, branch.BranchTypeTCC, branch.BranchTypeXA} {
		s := &stubRM{bt: bt, script: map[string]string{}, calls: map[string]int{}}
		stubs[int(bt)] = s
		rm.GetRmCacheInstance().RegisterResourceManager(s)
	}
	var retiredStubs []*stubRM
	rng := NewRng(c.Seed)
	ss := coord.Sessions()
	sess := ss[len(ss)-1]
	time.Sleep(30 * time.Millisecond)
	nStreams := c.Budget(200, 20000)
	msgID := int32(100000)
	statuses := []int{int(branch.BranchStatusPhasetwoCommitted), int(branch.BranchStatusPhasetwoCommitFailedRetryable),
		int(branch.BranchStatusPhasetwoRollbacked), int(branch.BranchStatusPhasetwoRollbackFailedRetryable),
		int(branch.BranchStatusPhasetwoRollbackFailedUnretryable), int(branch.BranchStatusPhasetwoCommitFailedUnretryable)}
	for i := 0; i < nStreams; i++ {
		r := rng.Fork()
		cid := fmt.Sprintf("stream-%d", i)
		if !c.Want(cid) {
			continue
		}
		coord.ResetLog()
		n := 1 + r.Intn(10)
		type req struct {
			tok  string
			msg  message.RpcMessage
			id   int32
			want string // expected response token or ""
			bt   int
			key  string
			kind string
		}
		var reqs []req
		var msgIDs []int32
		boundary := []int32{0, 1, -1, 2147483647, -2147483648}
		// directed streams. reRegister: every request is of one branch type, the first is delivered alone, then
		// another manager is registered for that type, then the rest arrives.  pendingID: the first request
		// carries the message id of a request of the client's own that is still waiting for its answer (the
		// two sides number their messages independently).
		reRegister, pendingID := i%6 == 5, i%6 == 2
		reType := []int{0, 1, 3}[(i/6)%3]
		if reRegister && n < 2 {
			n = 2
		}
		var pendDone chan struct{}
		var pendResult string
		if pendingID {
			seen := make(chan int32, 1)
			mark := fmt.Sprintf("c15-pending-%d", i)
			coord.Script = func(s *FakeSession, kind string, m message.RpcMessage) Action {
				if b, ok := m.Body.(message.GlobalStatusRequest); ok && b.Xid == mark {
					seen <- m.ID
					return Action{Delay: 120 * time.Millisecond}
				}
				return Action{}
			}
			pendDone = make(chan struct{})
			go func() {
				defer close(pendDone)
				pendResult = safeCall(func() {
					res, err := sgetty.GetGettyRemotingClient().SendSyncRequest(message.GlobalStatusRequest{
						AbstractGlobalEndRequest: message.AbstractGlobalEndRequest{Xid: mark}})
					if _, ok := res.(message.GlobalStatusResponse); err != nil || !ok {
						panic(fmt.Sprintf("the client's own request got %T / %v", res, err))
					}
				})
			}()
			select {
			case id := <-seen:
				boundary = []int32{id}
			case <-time.After(5 * time.Second):
				pendingID = false
			}
		}
		for k := 0; k < n; k++ {
			msgID++
			if k == 0 && pendingID {
				msgIDs = append(msgIDs, boundary[0])
			} else if k == 0 && r.Chance(30) {
				// the coordinator's id counter wraps: boundary message ids (each at most once per stream)
				msgIDs = append(msgIDs, boundary[r.Intn(len(boundary))])
			} else {
				msgIDs = append(msgIDs, msgID)
			}
			kind := "C"
			if r.Bool() {
				kind = "R"
			}
			bt := []int{0, 1, 3, 0, 1, 3, 2, -1, 7}[r.Intn(9)]
			if reRegister {
				bt = reType
			}
			xid := fmt.Sprintf("10.0.0.%d:8091:%d", 1+r.Intn(3), 1000+r.Intn(4)) // xids shared between requests
			bid := int64(1 + r.Intn(6))                                          // branch ids shared across xids
			if r.Chance(10) {
				bid = int64(r.U64())
			}
			res := fmt.Sprintf("res%d", r.Intn(3))
			oc := "n"
			if st, ok := stubs[bt]; ok {
				key := fmt.Sprintf("%s/%d", xid, bid)
				st.mu.Lock()
				prev, seen := st.script[key]
				if seen {
					oc = prev // the same branch asked again: the manager answers the same
				} else {
					if r.Chance(25) {
						oc = "e"
					} else {
						oc = fmt.Sprintf("s%d", statuses[r.Intn(len(statuses))])
					}
					st.script[key] = oc
				}
				st.mu.Unlock()
			}
			tok := fmt.Sprintf("%s,%d,%s,%d,%d,%s,%s", kind, uint32(msgIDs[k]), xid, bid, bt, res, oc)
			end := message.AbstractBranchEndRequest{Xid: xid, BranchId: bid, BranchType: branch.BranchType(bt), ResourceId: res, ApplicationData: []byte("{}")}
			var body interface{} = message.BranchCommitRequest{AbstractBranchEndRequest: end}
			if kind == "R" {
				body = message.BranchRollbackRequest{AbstractBranchEndRequest: end}
			}
			want := ""
			if strings.HasPrefix(oc, "s") {
				want = fmt.Sprintf("%s,%d,%s,%d,%s", kind, uint32(msgIDs[k]), xid, bid, oc[1:])
			}
			reqs = append(reqs, req{tok: tok, id: msgIDs[k], want: want, bt: bt, kind: kind,
				msg: message.RpcMessage{ID: msgIDs[k], Type: message.GettyRequestTypeRequestSync, Codec: byte(codec.CodecTypeSeata), Body: body}})
		}
		// deliver concurrently on the one session, each delivery on its own goroutine that recovers a
		// panic exactly like dubbo-getty's task-pool worker does
		var wg sync.WaitGroup
		panics := 0
		var pmu sync.Mutex
		for qi, q := range reqs {
			q := q
			if reRegister && qi == 1 {
				// the first request has been answered; now the application registers another manager for the type
				wg.Wait()
				old := stubs[reType]
				old.mu.Lock()
				old.retired = true
				repl := &stubRM{bt: old.bt, script: map[string]string{}, calls: map[string]int{}}
				for k, v := range old.script {
					repl.script[k] = v
				}
				old.mu.Unlock()
				stubs[reType] = repl
				retiredStubs = append(retiredStubs, old)
				rm.GetRmCacheInstance().RegisterResourceManager(repl)
			}
			wg.Add(1)
			go func() {
				defer wg.Done()
				if p := safeCall(func() { sess.Push(q.msg) }); p != "" {
					pmu.Lock()
					panics++
					pmu.Unlock()
				}
			}()
		}
		wg.Wait()
		time.Sleep(2 * time.Millisecond)
		var got []string
		for _, l := range coord.Snapshot() {
			switch b := l.Msg.Body.(type) {
			case message.BranchCommitResponse:
				got = append(got, fmt.Sprintf("%010d C,%d,%s,%d,%d", uint32(l.Msg.ID), uint32(l.Msg.ID), b.Xid, b.BranchId, int(b.BranchStatus)))
			case message.BranchRollbackResponse:
				got = append(got, fmt.Sprintf("%010d R,%d,%s,%d,%d", uint32(l.Msg.ID), uint32(l.Msg.ID), b.Xid, b.BranchId, int(b.BranchStatus)))
			}
		}
		sort.Strings(got)
		for k := range got {
			got[k] = got[k][11:]
		}
		obs := "-"
		if len(got) > 0 {
			obs = strings.Join(got, " ")
		}
		toks := make([]string, len(reqs))
		var wants []string
		for k, q := range reqs {
			toks[k] = q.tok
			if q.want != "" {
				wants = append(wants, q.want)
			}
		}
		sort.Slice(wants, func(a, b int) bool {
			var x, y uint32
			fmt.Sscanf(strings.SplitN(wants[a], ",", 3)[1], "%d", &x)
			fmt.Sscanf(strings.SplitN(wants[b], ",", 3)[1], "%d", &y)
			return x < y
		})
		c.Out.Case(cid, "C15", "stream "+strings.Join(toks, " "), obs)
		if pendDone != nil {
			<-pendDone
			coord.Script = nil
			if pendResult != "" {
				panics++
			}
		}
		wrong := 0
		for _, st := range retiredStubs {
			st.mu.Lock()
			wrong += st.wrongRM
			st.wrongRM = 0
			st.mu.Unlock()
		}
		for _, st := range stubs {
			st.mu.Lock()
			wrong += st.wrongRM
			st.wrongRM = 0
			st.mu.Unlock()
		}
		ok := strings.Join(got, " ") == strings.Join(wants, " ") && wrong == 0 && pendResult == ""
		detail := ""
		if wrong > 0 {
			detail = fmt.Sprintf("%d requests reached a manager that is not the one registered for their branch type; ", wrong)
		}
		if pendResult != "" {
			detail += "the client's own pending request: " + pendResult + "; "
		}
		c.Out.Count(fmt.Sprintf("directed.reRegister=%v.pendingID=%v", reRegister, pendingID))
		c.Out.Oracle(cid, ok, "dispatch", detail+"got="+obs+" want="+strings.Join(wants, " "))
		c.Out.Tag(cid, fmt.Sprintf("nontrivial=%d", b2i(n > 1)))
		c.Out.Count(fmt.Sprintf("panics-recovered-as-the-task-pool-does.%d", panics))
		c.Out.Count(fmt.Sprintf("stream-length.%d", n))
	}
	coord.ResetLog()
	runC15TwoCoordinators(c, coord, stubs)
}

// ---- the reply goes to the coordinator that asked: with sessions to two coordinators open, a phase-two request
// that arrives on one of them is answered on that one — whatever the xid says about where the transaction
// began, and whatever the load-balance policy would pick (any node of a coordinator cluster may drive phase two)

func runC15TwoCoordinators(c *Ctx, coord *Coord, stubs map[int]*stubRM) {
	type dir struct {
		onB bool   // the request arrives on the second coordinator's session
		xid string // "A": an xid of the first coordinator's address, "B": of the second's, "C": of a third address
	}
	n := 0
	for _, d := range []dir{{false, "B"}, {true, "A"}, {true, "B"}, {true, "C"}, {false, "C"}, {false, "A"}} {
		n++
		cid := fmt.Sprintf("two-%d", n)
		if !c.Want(cid) {
			continue
		}
		var a *FakeSession
		for _, s := range coord.Sessions() {
			if !s.IsClosed() && s.addr == coord.Addr {
				a = s
			}
		}
		if a == nil {
			a = coord.OpenSession()
		}
		b := coord.OpenSessionAt("10.9.9.9:8091")
		time.Sleep(30 * time.Millisecond)
		coord.ResetLog()
		xid := map[string]string{"A": coord.Addr, "B": "10.9.9.9:8091", "C": "10.7.7.7:8091"}[d.xid] + fmt.Sprintf(":%d", 4000+n)
		st := stubs[int(branch.BranchTypeTCC)]
		st.mu.Lock()
		st.script[fmt.Sprintf("%s/%d", xid, 9)] = fmt.Sprintf("s%d", int(branch.BranchStatusPhasetwoCommitted))
		st.mu.Unlock()
		asked := a
		if d.onB {
			asked = b
		}
		id := int32(880000 + n)
		crash := safeCall(func() {
			coord.SendBranchCommit(asked, id, xid, 9, branch.BranchTypeTCC, "res0", []byte("{}"))
		})
		answeredOn := 0
		coord.WaitFor(2*time.Second, func(l []LoggedReq) bool {
			for _, e := range l {
				if e.Kind == "BranchCommitResponse" && e.Msg.ID == id {
					answeredOn = e.Session
					return true
				}
			}
			return false
		})
		obs := "answered-on=asker"
		if answeredOn == 0 {
			obs = "answered-on=none"
		} else if answeredOn != asked.id {
			obs = "answered-on=other"
		}
		c.Out.Case(cid, "C15", fmt.Sprintf("asked %d %s", asked.id, xid), obs)
		switch {
		case crash != "":
			c.Out.Oracle(cid, false, "crash", crash)
		case answeredOn == 0:
			c.Out.Oracle(cid, false, "no_reply", "no BranchCommitResponse with the request's id on any session")
		case answeredOn != asked.id:
			c.Out.Oracle(cid, false, "reply_sent_to_another_coordinator", fmt.Sprintf("the request arrived on session %d (%s), the reply went out on session %d; xid %s", asked.id, asked.addr, answeredOn, xid))
		default:
			c.Out.Oracle(cid, true, "", "")
		}
		c.Out.Tag(cid, "nontrivial=1")
		c.Out.Count("two-coordinators")
		b.CloseFromPeer()
	}
	coord.ResetLog()
	// the session the request arrived on goes away WHILE the manager works; a session to another coordinator is
	// open: the status the manager returned still goes out (on the session that is left), once
	if cid := "two-asker-gone"; c.Want(cid) {
		var a *FakeSession
		for _, s := range coord.Sessions() {
			if !s.IsClosed() && s.addr == coord.Addr {
				a = s
			}
		}
		if a == nil {
			a = coord.OpenSession()
		}
		b := coord.OpenSessionAt("10.9.9.9:8091")
		time.Sleep(30 * time.Millisecond)
		coord.ResetLog()
		xid := "10.7.7.7:8091:4100"
		st := stubs[int(branch.BranchTypeTCC)]
		st.mu.Lock()
		st.script[xid+"/9"] = fmt.Sprintf("s%d", int(branch.BranchStatusPhasetwoCommitted))
		st.working = func(key string) {
			if key == xid+"/9" {
				b.CloseFromPeer() // the asker is gone before the answer is ready
			}
		}
		st.mu.Unlock()
		id := int32(880100)
		crash := safeCall(func() {
			coord.SendBranchCommit(b, id, xid, 9, branch.BranchTypeTCC, "res0", []byte("{}"))
		})
		answers := 0
		coord.WaitFor(time.Second, func(l []LoggedReq) bool {
			answers = 0
			for _, e := range l {
				if e.Kind == "BranchCommitResponse" && e.Msg.ID == id {
					answers++
				}
			}
			return answers > 0
		})
		st.mu.Lock()
		st.working = nil
		st.mu.Unlock()
		c.Out.Case(cid, "C15", "skip", "skip")
		switch {
		case crash != "":
			c.Out.Oracle(cid, false, "crash", crash)
		case answers != 1:
			c.Out.Oracle(cid, false, "no_reply", fmt.Sprintf("%d responses with the request's id although the manager returned a status and a session is open", answers))
		default:
			c.Out.Oracle(cid, true, "", "")
		}
		c.Out.Tag(cid, "nontrivial=1")
		c.Out.Count("two-coordinators.asker-gone")
		_ = a
		coord.ResetLog()
	}
}
