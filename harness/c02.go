package main

import (
	"context"
	"database/sql"
	"fmt"
	"strings"
	"time"

	"seata.apache.org/seata-go/pkg/protocol/branch"
	"seata.apache.org/seata-go/pkg/protocol/message"

	"verifharness/memdb"
)

func init() { props["C02"] = runC02 }

type c02Result struct {
	trace   []string
	durable bool
	undo    bool
	err     bool
	open    bool
	crash   string
	nDB     int
	conn    int
}

func (r c02Result) String() string {
	// wf=1: the programs of this generator change rows, so their fault-free trace must have the shape the
	// theorems assume (BEGIN, queries/statements, register, undo insert, COMMIT); the model evaluates wfb on it
	return fmt.Sprintf("%s | durable=%d undo=%d err=%d open=%d wf=1", strings.Join(r.trace, " "), b2i(r.durable), b2i(r.undo), b2i(r.err), b2i(r.open))
}

// runC02Once executes one local transaction of the case inside a global transaction with the given
// fault and returns the merged trace of the business connection's statements and coordinator messages.
func runC02Once(w *ATWorld, cs *ATCase, fault string, lost int, conn int) c02Result {
	sc := cs.Schema
	sc.Table = w.NewTableName("p")
	w.SetUndoConfig(cs.Ser, cs.Comp, cs.Validate, cs.OnlyCare)
	sc.Create(w.Eng)
	for _, row := range cs.Rows {
		w.Eng.InsertRows(sc.Table, toMemRow(row))
	}
	initial := w.DumpTable(sc.Table)
	// warm the table-meta cache so that meta queries are not part of the faulted run
	InGlobalTx(cs.ID+"-warm", func(ctx context.Context) error {
		w.DB.ExecContext(ctx, "UPDATE "+sc.Table+" SET "+sc.Cols[len(sc.Cols)-1].Name+" = "+sc.Cols[len(sc.Cols)-1].Name+" WHERE 1 = 0")
		return nil
	})
	w.coord.ResetLog()
	w.Eng.ResetJournal()
	type cev struct {
		pos int
		tok string
	}
	var cevs []cev
	bizConn := conn
	bizLen := func() int {
		n := 0
		for _, e := range w.Eng.Journal() {
			if isBizEntry(e, sc.Table) {
				if bizConn == 0 {
					bizConn = e.Conn
				}
				if e.Conn == bizConn {
					n++
				}
			}
		}
		return n
	}
	reportsSeen := 0
	w.coord.Script = func(s *FakeSession, kind string, m message.RpcMessage) Action {
		switch b := m.Body.(type) {
		case message.BranchRegisterRequest:
			switch fault {
			case "reg:refused":
				cevs = append(cevs, cev{bizLen(), "g!"})
				return Action{Body: message.BranchRegisterResponse{AbstractTransactionResponse: failHead("lock conflict")}}
			case "reg:transport":
				cevs = append(cevs, cev{bizLen(), "g!"})
				return Action{TransportE: true}
			}
			cevs = append(cevs, cev{bizLen(), "g"})
		case message.BranchReportRequest:
			tok := "p1"
			if b.Status == branch.BranchStatusPhaseoneFailed {
				tok = "p0"
			}
			reportsSeen++
			if reportsSeen <= lost {
				cevs = append(cevs, cev{bizLen(), tok + "!"})
				return Action{TransportE: true}
			}
			cevs = append(cevs, cev{bizLen(), tok})
		}
		return Action{}
	}
	if strings.HasPrefix(fault, "db:") {
		var k int
		fmt.Sscanf(fault[3:], "%d", &k)
		// the business pool has one connection (known from the fault-free run): only its statements are
		// counted, the table-meta refresher works on other connections
		w.Eng.AddFault(memdb.Fault{Nth: k, Conn: conn})
	}
	res := c02Result{}
	ltx := cs.Locals[0]
	res.crash = safeCall(func() {
		InGlobalTx(cs.ID, func(ctx context.Context) error {
			var err error
			if ltx.Explicit {
				var tx *sql.Tx
				tx, err = w.DB.BeginTx(ctx, nil)
				if err == nil {
					for _, st := range ltx.Stmts {
						q, args, _ := st.Render(sc)
						if _, err = tx.ExecContext(ctx, q, args...); err != nil {
							break
						}
					}
					if err != nil {
						tx.Rollback()
					} else {
						err = tx.Commit()
					}
				}
			} else {
				q, args, _ := ltx.Stmts[0].Render(sc)
				_, err = w.DB.ExecContext(ctx, q, args...)
			}
			res.err = err != nil
			return nil
		})
	})
	w.Eng.ClearFaults()
	w.coord.Script = nil
	time.Sleep(time.Millisecond)
	// merge
	var biz []string
	for _, e := range w.Eng.Journal() {
		if !isBizEntry(e, sc.Table) || (bizConn != 0 && e.Conn != bizConn) {
			continue
		}
		biz = append(biz, bizToken(e, sc.Table))
	}
	res.nDB = len(biz)
	ci := 0
	for i := 0; i <= len(biz); i++ {
		for ci < len(cevs) && cevs[ci].pos == i {
			res.trace = append(res.trace, cevs[ci].tok)
			ci++
		}
		if i < len(biz) {
			res.trace = append(res.trace, biz[i])
		}
	}
	for ; ci < len(cevs); ci++ {
		res.trace = append(res.trace, cevs[ci].tok)
	}
	res.durable = w.DumpTable(sc.Table) != initial
	for _, u := range w.UndoLogRows() {
		if strings.HasSuffix(u, "/0") {
			res.undo = true
		}
	}
	res.open = len(w.Eng.OpenTxns()) > 0
	// clean up undo rows of this run
	w.Eng.Exec("DELETE FROM undo_log")
	w.Eng.DropTable(sc.Table)
	res.conn = bizConn
	return res
}

func isBizEntry(e memdb.Entry, table string) bool {
	switch e.Kind {
	case "begin", "commit", "rollback":
		return true
	case "select", "select_for_update", "insert", "update", "delete":
		return strings.EqualFold(e.Table, table) || strings.EqualFold(e.Table, "undo_log") && e.Kind == "insert"
	}
	return false
}

func bizToken(e memdb.Entry, table string) string {
	t := "?"
	switch e.Kind {
	case "begin":
		t = "B"
	case "commit":
		t = "C"
	case "rollback":
		t = "R"
	case "select", "select_for_update":
		t = "q"
	case "insert", "update", "delete":
		if strings.EqualFold(e.Table, "undo_log") {
			t = "u"
		} else {
			t = "x"
		}
	}
	if e.Err != "" && e.Kind != "rollback" {
		t += "!"
	}
	return t
}

func runC02(c *Ctx) {
	w := GetATWorld()
	runC02Followup(c, w)
	w.DB.SetMaxOpenConns(1)
	w.DB.SetMaxIdleConns(1)
	rng := NewRng(c.Seed)
	nProg := c.Budget(30, 600)
	id := 0
	for i := 0; i < nProg; i++ {
		r := rng.Fork()
		o := ATGenOpts{}
		cs := genATCase(r, w, fmt.Sprintf("c02-%d", i), o)
		cs.Validate = true
		// one local transaction whose statements certainly change something
		if len(cs.Rows) < 2 {
			cs.Rows = genRows(r, cs.Schema, 3)
		}
		sc := cs.Schema
		taken := map[string]bool{}
		for _, row := range cs.Rows {
			k := ""
			for _, p := range sc.PK {
				k += row[p].Cell() + "/"
			}
			taken[k] = true
		}
		mk := func() *ATStmt {
			row := cs.Rows[r.Intn(len(cs.Rows))]
			where := &ATCond{Op: "cmp:e", E: []*ATExpr{{K: 'c', Col: sc.PK[0]}, {K: 'a', Val: row[sc.PK[0]]}}}
			switch r.Intn(3) {
			case 0:
				var nonPK []int
				for ci := range sc.Cols {
					if !sc.isPK(ci) {
						nonPK = append(nonPK, ci)
					}
				}
				if len(nonPK) == 0 {
					return &ATStmt{Kind: 'D', Where: where}
				}
				col := nonPK[r.Intn(len(nonPK))]
				v := ATVal{K: 'i', I: 987654321}
				if sc.Cols[col].Typ == 's' {
					v = ATVal{K: 's', S: "changed-by-c02"}
				}
				return &ATStmt{Kind: 'U', Sets: []ATSet{{Col: col, Plus: -1, E: &ATExpr{K: 'a', Val: v}}}, Where: where}
			case 1:
				return &ATStmt{Kind: 'D', Where: where}
			default:
				return genInsert(r, sc, taken, ATGenOpts{})
			}
		}
		l := ATLocalTx{Explicit: r.Bool()}
		l.Stmts = []*ATStmt{mk()}
		if l.Explicit && r.Bool() {
			l.Stmts = append(l.Stmts, genInsert(r, sc, taken, ATGenOpts{}))
		}
		cs.Locals = []ATLocalTx{l}
		clean := runC02Once(w, cs, "none", 0, 0)
		cleanToks := strings.Join(stripReports(clean.trace), " ")
		mode := "autocommit"
		if l.Explicit {
			mode = "explicit"
		}
		emit := func(fault string, lost int, res c02Result) {
			id++
			cid := fmt.Sprintf("c02-%d", id)
			if !c.Want(cid) {
				return
			}
			c.Out.Case(cid, "C02", fmt.Sprintf("p1 %s %d %s", fault, lost, cleanToks), res.String())
			// ---- oracle on the implementation alone
			class, detail := "", ""
			fail := func(cl, d string) {
				if class == "" {
					class, detail = cl, d
				}
			}
			tr := res.trace
			posOf := func(tok string) int {
				for k, t := range tr {
					if t == tok {
						return k
					}
				}
				return -1
			}
			committed := posOf("C") >= 0
			if res.crash != "" {
				fail("crash", res.crash)
			}
			if res.durable != committed || res.undo != (committed && posOf("u") >= 0) {
				fail("not_atomic", fmt.Sprintf("durable=%v undo-row=%v but COMMIT succeeded=%v", res.durable, res.undo, committed))
			}
			if committed {
				g, u := posOf("g"), posOf("u")
				if g < 0 || g > posOf("C") {
					fail("commit_before_register", "local COMMIT without a preceding successful registration")
				}
				if u >= 0 && !(g < u && u < posOf("C")) {
					fail("undo_log_not_between_register_and_commit", strings.Join(tr, " "))
				}
				lastB := -1
				for k, t := range tr[:posOf("C")] {
					if t == "B" {
						lastB = k
					}
				}
				if u >= 0 && lastB > u {
					fail("undo_log_in_another_transaction", strings.Join(tr, " "))
				}
			}
			if fault != "none" && !strings.HasPrefix(fault, "db:") || strings.Contains(strings.Join(tr, " "), "!") {
				faulted := false
				for _, t := range tr {
					if strings.HasSuffix(t, "!") && !strings.HasPrefix(t, "p") {
						faulted = true
					}
				}
				if faulted {
					if committed || res.durable {
						fail("committed_despite_failure", strings.Join(tr, " "))
					}
					if !res.err {
						fail("failure_not_returned", strings.Join(tr, " "))
					}
					if posOf("g") >= 0 {
						n0 := 0
						for _, t := range tr {
							if strings.HasPrefix(t, "p0") {
								n0++
							}
						}
						if n0 == 0 || n0 > 5 {
							fail("phase_one_failed_not_reported", fmt.Sprintf("%d PhaseoneFailed reports", n0))
						}
					}
				}
			}
			if res.open {
				fail("connection_returned_inside_transaction", strings.Join(tr, " "))
			}
			c.Out.Oracle(cid, class == "", class, detail+" | "+mode+" | "+res.String())
			c.Out.Tag(cid, "nontrivial=1 hash="+cid)
			c.Out.Count("mode." + mode)
			c.Out.Count("fault." + strings.SplitN(fault, ":", 2)[0])
		}
		emit("none", 0, clean)
		for k := 1; k <= clean.nDB; k++ {
			emit(fmt.Sprintf("db:%d", k), 0, runC02Once(w, cs, fmt.Sprintf("db:%d", k), 0, clean.conn))
		}
		emit("reg:refused", 0, runC02Once(w, cs, "reg:refused", 0, clean.conn))
		emit("reg:transport", 0, runC02Once(w, cs, "reg:transport", 0, clean.conn))
		// lost reports: on the clean run and on a failing undo-log insert / commit
		lostN := []int{1, 5, 2, 5}[(i/5)%4]
		if i%5 == 0 {
			emit("none", lostN, runC02Once(w, cs, "none", lostN, clean.conn))
			emit(fmt.Sprintf("db:%d", clean.nDB), lostN, runC02Once(w, cs, fmt.Sprintf("db:%d", clean.nDB), lostN, clean.conn))
			emit(fmt.Sprintf("db:%d", clean.nDB-1), lostN, runC02Once(w, cs, fmt.Sprintf("db:%d", clean.nDB-1), lostN, clean.conn))
		}
	}
}

func stripReports(tr []string) []string {
	var out []string
	for _, t := range tr {
		if !strings.HasPrefix(t, "p") {
			out = append(out, t)
		}
	}
	return out
}
