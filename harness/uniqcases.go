package main

import (
	"context"
	"errors"
	"fmt"
	"strings"
	"time"

	"seata.apache.org/seata-go/pkg/protocol/branch"

	"verifharness/memdb"
)

// A table with a SECONDARY unique index (id BIGINT key, u VARCHAR unique, n INT): statements that may collide
// with an existing row through that index — INSERT … ON DUPLICATE KEY UPDATE, REPLACE (which then deletes a row
// under another key), INSERT IGNORE, and plain INSERT / UPDATE (refused by the database).  The model has no
// unique indexes besides the key: these cases are decided by oracles on the implementation alone (C01: the
// rollback restores the table; C03: every written row is covered by a lock key).

type uniqOutcome struct {
	sql                  string
	initial, mid, final  string
	lockKeys             string
	execErr              error
	allRollbacked        bool
	crash                string
	written              []string // ids of the rows the statement inserted, deleted or changed
	normalUndoRowsBefore int
}

func runUniqCase(w *ATWorld, cid string, r *Rng) *uniqOutcome {
	o := &uniqOutcome{}
	t := w.NewTableName("uq")
	w.SetUndoConfig([]string{"json", "protobuf"}[r.Intn(2)], "None", r.Chance(70), r.Bool())
	w.Eng.CreateTable(memdb.TableDef{Name: t, Cols: []memdb.Column{{Name: "id", Type: memdb.TBigInt}, {Name: "u", Type: memdb.TVarchar, Length: 32}, {Name: "n", Type: memdb.TInt, Nullable: true}}, PK: []string{"id"}, Unique: [][]string{{"u"}}})
	us := []string{"a", "b", "c", "d", "e"}
	nRows := 2 + r.Intn(3)
	for k := 0; k < nRows; k++ {
		w.Eng.InsertRows(t, memdb.Row{int64(k + 1), us[k], int64(10 * (k + 1))})
	}
	pickID := func() int64 {
		if r.Bool() {
			return int64(1 + r.Intn(nRows)) // existing
		}
		return int64(20 + r.Intn(5)) // new
	}
	pickU := func() string {
		if r.Chance(60) {
			return us[r.Intn(nRows)] // existing: may collide with ANOTHER row
		}
		return fmt.Sprintf("n%d", r.Intn(4))
	}
	nVals := 1 + r.Intn(2)
	var tuples []string
	seenID, seenU := map[int64]bool{}, map[string]bool{}
	for len(tuples) < nVals {
		id, u := pickID(), pickU()
		if seenID[id] || seenU[u] {
			continue
		}
		seenID[id], seenU[u] = true, true
		tuples = append(tuples, fmt.Sprintf("(%d, '%s', %d)", id, u, 50+r.Intn(9)))
	}
	vals := strings.Join(tuples, ", ")
	switch r.Intn(7) {
	case 0:
		o.sql = "INSERT INTO " + t + " (id, u, n) VALUES " + vals + " ON DUPLICATE KEY UPDATE n = VALUES(n)"
	case 1:
		o.sql = "INSERT INTO " + t + " (id, u, n) VALUES " + vals + " ON DUPLICATE KEY UPDATE n = n + 1"
	case 2, 3:
		o.sql = "REPLACE INTO " + t + " (id, u, n) VALUES " + vals
	case 4:
		o.sql = "INSERT IGNORE INTO " + t + " (id, u, n) VALUES " + vals
	case 5:
		o.sql = "INSERT INTO " + t + " (id, u, n) VALUES " + vals
	default:
		o.sql = fmt.Sprintf("UPDATE %s SET u = '%s' WHERE id = %d", t, pickU(), 1+r.Intn(nRows))
	}
	o.initial = w.DumpTable(t)
	before := map[string]string{}
	for _, row := range w.Eng.Dump(t) {
		before[fmt.Sprint(row[0])] = fmt.Sprint(row)
	}
	w.coord.ResetLog()
	var xid string
	o.crash = safeCall(func() {
		xid, _ = InGlobalTx(cid, func(ctx context.Context) error {
			_, o.execErr = w.DB.ExecContext(ctx, o.sql)
			return errors.New("roll the global transaction back")
		})
	})
	o.mid = w.DumpTable(t)
	after := map[string]string{}
	for _, row := range w.Eng.Dump(t) {
		after[fmt.Sprint(row[0])] = fmt.Sprint(row)
	}
	for id, row := range before {
		if after[id] != row {
			o.written = append(o.written, id)
		}
	}
	for id := range after {
		if _, ok := before[id]; !ok {
			o.written = append(o.written, id)
		}
	}
	o.allRollbacked = true
	brs := w.coord.RegisteredBranches(xid)
	var keys []string
	for _, b := range brs {
		keys = append(keys, b.LockKey)
	}
	o.lockKeys = strings.Join(keys, " ")
	for k := len(brs) - 1; k >= 0; k-- {
		st, ok, _ := w.coord.RollbackBranch(w.coord.LastSession(), brs[k], 5*time.Second)
		if !ok || st != branch.BranchStatusPhasetwoRollbacked {
			o.allRollbacked = false
		}
	}
	o.final = w.DumpTable(t)
	o.normalUndoRowsBefore = normalUndoRows(w)
	w.Eng.Exec("DELETE FROM undo_log")
	w.Eng.DropTable(t)
	return o
}

// runC01Uniq: the rollback restores the table (cases c01-u*)
func runC01Uniq(c *Ctx, w *ATWorld) {
	rng := NewRng(c.Seed + 91)
	for i := 0; i < c.Budget(60, 3000); i++ {
		r := rng.Fork()
		cid := fmt.Sprintf("c01-u%d", i)
		if !c.Want(cid) {
			continue
		}
		o := runUniqCase(w, cid, r)
		class := ""
		switch {
		case o.crash != "":
			class = "crash"
		case o.execErr != nil && o.mid != o.initial:
			class = "failed_statement_changed_the_table"
		case o.allRollbacked && o.final != o.initial:
			class = "rollbacked_but_not_restored"
		case !o.allRollbacked:
			class = "rollback_reported_failed"
		case o.normalUndoRowsBefore > 0:
			class = "undo_log_left"
		}
		c.Out.Case(cid, "C01", "skip", "skip")
		c.Out.Oracle(cid, class == "", class, fmt.Sprintf("%s | err=%v initial=%s mid=%s final=%s keys=%s crash=%s", o.sql, o.execErr, o.initial, o.mid, o.final, o.lockKeys, o.crash))
		c.Out.Tag(cid, fmt.Sprintf("nontrivial=%d", b2i(o.mid != o.initial)))
		c.Out.Count("unique-index." + strings.SplitN(o.sql, " ", 2)[0])
	}
}

// runC03Uniq: every row the statement wrote — also a row a REPLACE deleted under another key — is covered
// by a lock key of the registration (cases c03-u*)
func runC03Uniq(c *Ctx, w *ATWorld) {
	rng := NewRng(c.Seed + 91)
	for i := 0; i < c.Budget(60, 3000); i++ {
		r := rng.Fork()
		cid := fmt.Sprintf("c03-u%d", i)
		if !c.Want(cid) {
			continue
		}
		o := runUniqCase(w, cid, r)
		locked := map[string]bool{}
		for _, k := range strings.Split(parseLockKeys(strings.ReplaceAll(o.lockKeys, " ", "")), ",") {
			locked[k] = true
		}
		class, detail := "", ""
		for _, id := range o.written {
			if !locked[id] && class == "" {
				class, detail = "written_row_not_locked", fmt.Sprintf("row %s was written but the registration carried %q", id, o.lockKeys)
			}
		}
		if o.crash != "" {
			class, detail = "crash", o.crash
		}
		c.Out.Case(cid, "C03", "skip", "skip")
		c.Out.Oracle(cid, class == "", class, fmt.Sprintf("%s | %s | err=%v initial=%s mid=%s", detail, o.sql, o.execErr, o.initial, o.mid))
		c.Out.Tag(cid, fmt.Sprintf("nontrivial=%d", b2i(len(o.written) > 0)))
		c.Out.Count("unique-index")
	}
}
