package main

import (
	"context"
	"errors"
	"fmt"
	"time"

	"seata.apache.org/seata-go/pkg/protocol/branch"

	"verifharness/memdb"
)

// runC01MixedKeys: a multi-row INSERT that leaves SOME of its AUTO_INCREMENT keys to the database and gives the
// others. Which keys the database hands out then is its own business (the counter jumps past a given key): the
// rows cannot be identified from the statement and the reported first id. Either the statement is refused before
// it runs, or — if it runs — a global rollback removes exactly the rows it inserted (cases c01-k*).
func runC01MixedKeys(c *Ctx, w *ATWorld) {
	n := 0
	for _, gen := range []string{"NULL", "0", "DEFAULT", "'0'", "0.0"} {
		for _, order := range []string{"generated-first", "given-first", "given-between", "alone"} {
			if order == "alone" && gen != "'0'" && gen != "0.0" {
				continue // (a single row with NULL / 0 / DEFAULT is what atgen's AutoForm generates)
			}
			n++
			cid := fmt.Sprintf("c01-k%d", n)
			if !c.Want(cid) {
				continue
			}
			w.SetUndoConfig("json", "None", true, false)
			t := w.NewTableName("mk")
			if err := w.Eng.CreateTable(memdb.TableDef{Name: t, Cols: []memdb.Column{{Name: "id", Type: memdb.TBigInt, AutoInc: true}, {Name: "v", Type: memdb.TVarchar, Length: 8, Nullable: true}}, PK: []string{"id"}}); err != nil {
				panic(err)
			}
			w.Eng.InsertRows(t, memdb.Row{int64(1), "x"}, memdb.Row{int64(2), "y"})
			rows := map[string]string{
				"generated-first": "(" + gen + ", 'a'), (100, 'b')",
				"given-first":     "(100, 'b'), (" + gen + ", 'a')",
				"given-between":   "(" + gen + ", 'a'), (100, 'b'), (" + gen + ", 'c')",
				"alone":           "(" + gen + ", 'a')", // a zero that is not written as the integer 0: the database assigns the key all the same
			}[order]
			q := "INSERT INTO " + t + " (id, v) VALUES " + rows
			before := w.DumpTable(t)
			w.coord.ResetLog()
			var execErr error
			var xid string
			crash := safeCall(func() {
				xid, _ = InGlobalTx(cid, func(ctx context.Context) error {
					_, execErr = w.DB.ExecContext(ctx, q)
					return errors.New("roll the global transaction back")
				})
			})
			mid := w.DumpTable(t)
			allOK := true
			brs := w.coord.RegisteredBranches(xid)
			for k := len(brs) - 1; k >= 0; k-- {
				st, ok, _ := w.coord.RollbackBranch(w.coord.LastSession(), brs[k], 5*time.Second)
				if !ok || st != branch.BranchStatusPhasetwoRollbacked {
					allOK = false
				}
			}
			final := w.DumpTable(t)
			class := ""
			switch {
			case crash != "":
				class = "crash"
			case execErr != nil && mid != before:
				class = "refused_statement_took_effect"
			case allOK && final != before:
				class = "rollbacked_but_not_restored"
			}
			obs := "runs"
			if execErr != nil && mid == before {
				obs = "refused"
			}
			c.Out.Case(cid, "C01", "route insert "+map[string]string{"generated-first": "- k", "given-first": "k -", "given-between": "- k -", "alone": "-"}[order], obs)
			c.Out.Oracle(cid, class == "", class, fmt.Sprintf("%s | err=%v before=%s mid=%s final=%s rollback-ok=%v crash=%s", q, execErr, before, mid, final, allOK, crash))
			c.Out.Tag(cid, "nontrivial=1")
			c.Out.Count("mixed-keys." + order)
			w.Eng.Exec("DELETE FROM undo_log")
			w.Eng.DropTable(t)
		}
	}
}
