package main

import (
	"runtime"
	"bytes"
	"fmt"
	"seata.apache.org/seata-go/pkg/protocol/branch"
	"sort"
	"strings"

	"seata.apache.org/seata-go/pkg/protocol/codec"
	"seata.apache.org/seata-go/pkg/protocol/message"
	sgetty "seata.apache.org/seata-go/pkg/remoting/getty"
)

func init() { props["C13"] = runC13 }

type frameSpec struct {
	id         int32
	typ        byte
	comp       byte
	hm         map[string]string
	body       interface{} // message struct or nil (heartbeat)
	bodyHex    string      // CodecManager.Encode(body) or "-"
	writtenHex []byte
}

func hmString(m map[string]string) string {
	if len(m) == 0 {
		return "-"
	}
	es := make([]string, 0, len(m))
	keys := make([]string, 0, len(m))
	for k := range m {
		keys = append(keys, k)
	}
	sort.Strings(keys)
	for _, k := range keys {
		es = append(es, hx([]byte(k))+"="+hx([]byte(m[k])))
	}
	return strings.Join(es, ",")
}

func genHeadMap(r *Rng) map[string]string {
	n := 0
	switch r.Intn(6) {
	case 0, 1:
		n = 0
	case 2, 3:
		n = 1
	default:
		n = 1 + r.Intn(4)
	}
	m := map[string]string{}
	for i := 0; i < n; i++ {
		var k, v string
		switch r.Intn(5) {
		case 0:
			k = ""
		default:
			k = string(genBytes(r, 12))
			if len(k) == 0 {
				k = fmt.Sprintf("k%d", i)
			}
		}
		switch r.Intn(4) {
		case 0:
			v = ""
		default:
			v = string(genBytes(r, 20))
		}
		m[k] = v
	}
	return m
}

// bodies whose codec round trip is the identity (C12 normal forms), so that the delivered Body can be
// compared by re-encoding it
func genBody(r *Rng) interface{} {
	kd := c12Kinds[r.Intn(len(c12Kinds))]
	vs := make([]FV, len(kd.fields))
	for i, f := range kd.fields {
		v := genField(r, f, true)
		switch f {
		case "str2", "str4":
			if len(v.B) > 64 {
				v.B = v.B[:r.Intn(64)]
			}
		case "msg":
			if len(v.B) > 64 {
				v.B = v.B[:r.Intn(64)]
			}
		case "ms":
			v = nat(v.N / 1000000 * 1000000)
		}
		vs[i] = v
	}
	vs = normalizeFields(kd.fields, vs)
	return kd.build(vs)
}

func genFrame(r *Rng) *frameSpec {
	f := &frameSpec{id: int32(r.U64()), comp: 0, hm: genHeadMap(r)}
	switch r.Intn(8) {
	case 0:
		f.typ = byte(message.GettyRequestTypeHeartbeatRequest)
	case 1:
		f.typ = byte(message.GettyRequestTypeHeartbeatResponse)
	default:
		f.typ = byte(r.Intn(3))
		f.body = genBody(r)
	}
	if r.Chance(10) {
		f.id = int32(r.Intn(3)) - 1
	}
	return f
}

func (f *frameSpec) rpc() message.RpcMessage {
	m := message.RpcMessage{ID: f.id, Type: message.GettyRequestType(f.typ), Codec: byte(codec.CodecTypeSeata), Compressor: f.comp, HeadMap: f.hm, Body: f.body}
	if f.body == nil {
		if f.typ == byte(message.GettyRequestTypeHeartbeatRequest) {
			m.Body = message.HeartBeatMessagePing
		} else {
			m.Body = message.HeartBeatMessagePong
		}
	}
	return m
}

func (f *frameSpec) show() string {
	return fmt.Sprintf("%d:%d:%d:%d:%s:%s", uint32(f.id), f.typ, byte(codec.CodecTypeSeata), f.comp, hmString(f.hm), f.bodyHex)
}

func showDelivered(pkg interface{}, garbage bool) string {
	m, ok := pkg.(message.RpcMessage)
	if !ok {
		return fmt.Sprintf("not-rpcmessage(%T)", pkg)
	}
	if garbage {
		return fmt.Sprintf("%d:%d:%d:%d", uint32(m.ID), byte(m.Type), m.Codec, m.Compressor)
	}
	body := "-"
	if m.Type != message.GettyRequestTypeHeartbeatRequest && m.Type != message.GettyRequestTypeHeartbeatResponse && m.Body != nil {
		p := safeCall(func() {
			b := codec.GetCodecManager().Encode(codec.CodecType(m.Codec), m.Body)
			body = hx(b)
		})
		if p != "" {
			body = "reencode-crash"
		}
	}
	return fmt.Sprintf("%d:%d:%d:%d:%s:%s", uint32(m.ID), byte(m.Type), m.Codec, m.Compressor, hmString(m.HeadMap), body)
}

// driveRead feeds the chunks to the real RpcPackageHandler.Read exactly as dubbo-getty's
// handleTCPPackage does: append to the buffer; while the buffer is non-empty call Read; error ->
// close the session; pkg == nil -> wait for more; else deliver and advance by pkgLen.
func driveRead(chunks [][]byte, garbage bool) (obs string, delivered []string, rest int, closed bool, crash string, spin bool) {
	return driveReadOn(&sgetty.RpcPackageHandler{}, chunks, garbage, nil)
}

// driveReadOn: as driveRead, on a given handler; between is called before every chunk (another stream's turn on
// the same handler: the client hands ONE handler to all its sessions)
func driveReadOn(h *sgetty.RpcPackageHandler, chunks [][]byte, garbage bool, between func()) (obs string, delivered []string, rest int, closed bool, crash string, spin bool) {
	var buf []byte
	crash = safeCall(func() {
		for _, c := range chunks {
			if closed {
				break
			}
			if between != nil {
				between()
			}
			buf = append(buf, c...)
			iter := 0
			for len(buf) > 0 {
				iter++
				if iter > 100000 {
					spin = true
					closed = true
					break
				}
				pkg, n, err := h.Read(nil, buf)
				if err != nil {
					closed = true
					break
				}
				if pkg == nil {
					break
				}
				delivered = append(delivered, showDelivered(pkg, garbage))
				if n == 0 {
					spin = true
					closed = true
					break
				}
				if n > len(buf) {
					n = len(buf) // gxbytes.Buffer.Next clamps
				}
				buf = buf[n:]
			}
		}
	})
	ms := "-"
	if len(delivered) > 0 {
		ms = strings.Join(delivered, ";")
	}
	c := 0
	if closed {
		c = 1
	}
	obs = fmt.Sprintf("msgs=%s rest=%d closed=%d", ms, len(buf), c)
	if crash != "" {
		obs = "crash " + strings.ReplaceAll(crash, " ", "_")
	} else if spin {
		obs += " spin"
	}
	return obs, delivered, len(buf), closed, crash, spin
}

func chunksHex(chunks [][]byte) string {
	s := make([]string, len(chunks))
	for i, c := range chunks {
		s[i] = hx(c)
	}
	return strings.Join(s, " ")
}

func partition(r *Rng, stream []byte, maxChunks int) [][]byte {
	if len(stream) == 0 {
		return [][]byte{{}}
	}
	n := 1 + r.Intn(maxChunks)
	cuts := map[int]bool{}
	for i := 0; i < n-1; i++ {
		cuts[r.Intn(len(stream)+1)] = true
	}
	pos := make([]int, 0, len(cuts))
	for c := range cuts {
		pos = append(pos, c)
	}
	sort.Ints(pos)
	var out [][]byte
	prev := 0
	for _, p := range pos {
		out = append(out, stream[prev:p])
		prev = p
	}
	out = append(out, stream[prev:])
	if r.Chance(20) { // an empty read in the middle
		k := r.Intn(len(out) + 1)
		out = append(out[:k], append([][]byte{{}}, out[k:]...)...)
	}
	return out
}

func runC13(c *Ctx) {
	codec.Init()
	h := &sgetty.RpcPackageHandler{}
	rng := NewRng(c.Seed)
	nStreams := c.Budget(40, 400)
	nRandom := c.Budget(500, 30000)
	nGarbage := c.Budget(400, 20000)

	mkStream := func(r *Rng, nf int) ([]*frameSpec, []byte, bool) {
		var fs []*frameSpec
		var stream []byte
		for i := 0; i < nf; i++ {
			f := genFrame(r)
			var wb []byte
			var err error
			p := safeCall(func() {
				b, e := h.Write(nil, f.rpc())
				wb, err = b, e
			})
			if p != "" || err != nil {
				return nil, nil, false
			}
			f.writtenHex = wb
			f.bodyHex = "-"
			if f.body != nil {
				f.bodyHex = hx(codec.GetCodecManager().Encode(codec.CodecTypeSeata, f.body))
			}
			fs = append(fs, f)
			stream = append(stream, wb...)
		}
		return fs, stream, true
	}

	emitFeed := func(cid string, fs []*frameSpec, chunks [][]byte, fullStream bool, streamLen int) {
		obs, delivered, rest, closed, crash, spin := driveRead(chunks, false)
		c.Out.Case(cid, "C13", "feed "+chunksHex(chunks), obs)
		// oracle on the implementation alone
		fed := 0
		for _, ch := range chunks {
			fed += len(ch)
		}
		// frames wholly contained in the fed prefix must be delivered, in order, nothing else
		var want []string
		off := 0
		for _, f := range fs {
			if off+len(f.writtenHex) <= fed {
				want = append(want, f.show())
				off += len(f.writtenHex)
			} else {
				break
			}
		}
		ok := crash == "" && !spin && !closed && strings.Join(delivered, ";") == strings.Join(want, ";") && rest == fed-off
		class := "fragmentation"
		if crash != "" {
			class = "crash"
		} else if spin {
			class = "spin"
		}
		if ok && len(chunks) > 1 {
			// the same stream once more on a handler that serves ANOTHER session in between (a complete heart-beat
			// frame of that session before every chunk): nothing the handler remembers of one session's unfinished
			// frame may be applied to the other's bytes, and the other way round
			shared := &sgetty.RpcPackageHandler{}
			otherOK := true
			ping := []byte{0xda, 0xda, 0x01, 0x00, 0x00, 0x00, 0x10, 0x00, 0x10, 0x03, 0x01, 0x00, 0x00, 0x00, 0x00, 0x07}
			between := func() {
				if safeCall(func() {
					if pkg, n, err := shared.Read(nil, ping); err != nil || pkg == nil || n != len(ping) {
						otherOK = false
					}
				}) != "" {
					otherOK = false
				}
			}
			obs2, _, _, _, _, _ := driveReadOn(shared, chunks, false, between)
			if obs2 != obs || !otherOK {
				ok, class = false, "sessions_share_reader_state"
				obs = fmt.Sprintf("alone: %s | with another session's frames in between: %s (the other session's complete frames read: %v)", obs, obs2, otherOK)
			}
			c.Out.Count("interleaved-with-another-session")
		}
		c.Out.Oracle(cid, ok, class, fmt.Sprintf("fed=%d of %d bytes in %d chunks; delivered=%d want=%d rest=%d closed=%v crash=%s %s", fed, streamLen, len(chunks), len(delivered), len(want), rest, closed, crash, map[bool]string{true: "", false: obs}[ok]))
		nt := 0
		if len(chunks) > 1 && len(fs) > 0 {
			nt = 1
		}
		c.Out.Tag(cid, fmt.Sprintf("nontrivial=%d", nt))
	}

	// (w) Write vs writeFrame for head maps with at most one entry (map order is not defined beyond)
	for i := 0; i < c.Budget(150, 3000); i++ {
		r := rng.Fork()
		f := genFrame(r)
		for len(f.hm) > 1 {
			for k := range f.hm {
				delete(f.hm, k)
				break
			}
		}
		cid := fmt.Sprintf("w-%d", i)
		if !c.Want(cid) {
			continue
		}
		var wb []byte
		var err error
		p := safeCall(func() { wb, err = h.Write(nil, f.rpc()) })
		bodyHex := "-"
		if f.body != nil {
			bodyHex = hx(codec.GetCodecManager().Encode(codec.CodecTypeSeata, f.body))
		}
		obs := hx(wb)
		if p != "" || err != nil {
			obs = "crash-or-error"
		}
		c.Out.Case(cid, "C13", fmt.Sprintf("write %d %d %d %d %s %s", uint32(f.id), f.typ, byte(codec.CodecTypeSeata), f.comp, hmString(f.hm), bodyHex), obs)
		c.Out.Tag(cid, "nontrivial=1")
		c.Out.Count("write")
	}

	// (a) every cut position of short streams (1 or 2 frames), both as two chunks and as a truncation
	for s := 0; s < nStreams; s++ {
		r := rng.Fork()
		fs, stream, ok := mkStream(r, 1+r.Intn(2))
		if !ok {
			continue
		}
		for k := 0; k <= len(stream); k++ {
			cid := fmt.Sprintf("cut-%d-%d", s, k)
			if c.Want(cid) {
				emitFeed(cid, fs, [][]byte{stream[:k], stream[k:]}, true, len(stream))
				c.Out.Count("cut.two-chunks")
			}
			cid = fmt.Sprintf("trunc-%d-%d", s, k)
			if c.Want(cid) && k < len(stream) {
				emitFeed(cid, fs, [][]byte{stream[:k]}, false, len(stream))
				c.Out.Count("cut.truncated")
			}
		}
	}
	// (b) random partitions of longer streams; (c) truncated + partitioned
	for i := 0; i < nRandom; i++ {
		r := rng.Fork()
		cid := fmt.Sprintf("part-%d", i)
		if !c.Want(cid) {
			continue
		}
		fs, stream, ok := mkStream(r, 1+r.Intn(6))
		if !ok {
			continue
		}
		if r.Chance(25) {
			stream = stream[:r.Intn(len(stream)+1)]
			c.Out.Count("partition.truncated")
		} else {
			c.Out.Count("partition.full")
		}
		chunks := partition(r, stream, 1+r.Intn(12))
		emitFeed(cid, fs, chunks, true, len(stream))
		c.Out.Count(fmt.Sprintf("frames.%d", len(fs)))
	}
	// (e) frames around and above 64 KiB (legal: the default max-msg-len is 102400): the total length passes the
	// 16-bit boundary while the head length stays small; whole, cut in two, and followed by a second frame
	for ti, total := range []int{65535, 65536, 65537, 65540, 65551, 65552, 65553, 70001, 102400} {
		cid := fmt.Sprintf("big-%d", ti)
		if !c.Want(cid) {
			continue
		}
		mk := func(n int) (*frameSpec, []byte) {
			f := &frameSpec{id: int32(1000 + ti), typ: byte(message.GettyRequestTypeRequestSync), hm: map[string]string{}}
			f.body = message.BranchRegisterRequest{Xid: "10.0.0.1:8091:1", ResourceId: "res", LockKey: strings.Repeat("k", n), BranchType: branch.BranchTypeAT, ApplicationData: []byte("{}")}
			wb, err := h.Write(nil, f.rpc())
			if err != nil {
				return nil, nil
			}
			f.writtenHex = wb
			f.bodyHex = hx(codec.GetCodecManager().Encode(codec.CodecTypeSeata, f.body))
			return f, wb
		}
		_, base := mk(0)
		if base == nil || total < len(base) {
			continue
		}
		f, wb := mk(total - len(base))
		r := rng.Fork()
		small, tail, ok := mkStream(r, 1)
		if f == nil || !ok || len(wb) != total {
			continue
		}
		stream := append(append([]byte{}, wb...), tail...)
		fs := append([]*frameSpec{f}, small...)
		cut := 1 + r.Intn(total-1)
		emitFeed(cid, fs, [][]byte{stream[:cut], stream[cut:]}, true, len(stream))
		c.Out.Count("big-frames")
	}
	// (d0) a well-formed frame whose BODY declares a field of almost 4 GiB: the reader allocates what is there, not
	// what is declared (a process that runs out of memory does not panic, it dies)
	for i, declared := range []uint32{0xFFFFFFF0, 0x80000000, 0x10000000} {
		cid := fmt.Sprintf("alloc-%d", i)
		if !c.Want(cid) {
			continue
		}
		marker := []byte("xyxyxyxyxyxyxyxy")
		msg := message.RpcMessage{ID: 77, Type: message.GettyRequestTypeRequestSync, Codec: byte(codec.CodecTypeSeata),
			Body: message.BranchCommitRequest{AbstractBranchEndRequest: message.AbstractBranchEndRequest{Xid: "10.0.0.1:8091:1", BranchId: 5, ResourceId: "r", ApplicationData: marker}}}
		frame, err := h.Write(nil, msg)
		at := bytes.Index(frame, marker)
		if err != nil || at < 4 {
			c.Out.Case(cid, "C13", "skip", "skip")
			c.Out.Oracle(cid, false, "setup", fmt.Sprint(err, at))
			continue
		}
		frame = append([]byte{}, frame...)
		frame[at-4], frame[at-3], frame[at-2], frame[at-1] = byte(declared>>24), byte(declared>>16), byte(declared>>8), byte(declared)
		var m0, m1 runtime.MemStats
		runtime.ReadMemStats(&m0)
		crash := safeCall(func() { (&sgetty.RpcPackageHandler{}).Read(nil, frame) })
		runtime.ReadMemStats(&m1)
		grown := (m1.TotalAlloc - m0.TotalAlloc) >> 20
		c.Out.Case(cid, "C13", "skip", "skip")
		class := ""
		if crash != "" {
			class = "crash"
		} else if grown > 64 {
			class = "allocates_what_a_length_prefix_declares"
		}
		c.Out.Oracle(cid, class == "", class, fmt.Sprintf("a %d-byte frame declaring a field of %d bytes: %d MiB allocated while reading it %s", len(frame), declared, grown, crash))
		c.Out.Tag(cid, "nontrivial=1")
		c.Out.Count("declared-length")
	}
	// (d) arbitrary non-frame bytes
	for i := 0; i < nGarbage; i++ {
		r := rng.Fork()
		cid := fmt.Sprintf("garbage-%d", i)
		if !c.Want(cid) {
			continue
		}
		var stream []byte
		shape := r.Intn(6)
		switch shape {
		case 0:
			stream = r.Bytes(1 + r.Intn(40))
		case 1:
			stream = append([]byte{0xda, 0xda}, r.Bytes(r.Intn(40))...)
		case 2, 3, 4: // valid stream with a few mutated bytes (header lengths, head map, body)
			_, s, ok := mkStream(r, 1+r.Intn(2))
			if !ok || len(s) == 0 {
				continue
			}
			stream = append([]byte{}, s...)
			for j := 0; j < 1+r.Intn(3); j++ {
				var pos int
				if shape == 2 {
					pos = r.Intn(16)
				} else if shape == 4 {
					// anywhere, the message BODY included (a mutated length prefix there declares up to 4 GiB: the
					// codecs read what is there, see the alloc-* cases)
					pos = r.Intn(len(stream))
				} else {
					// header and head map of the first frame only
					hl := 16
					if len(stream) >= 9 {
						hl = int(stream[7])<<8 | int(stream[8])
					}
					if hl > len(stream) {
						hl = len(stream)
					}
					pos = r.Intn(hl)
				}
				if pos < len(stream) {
					stream[pos] = byte(r.U64())
				}
			}
		default:
			_, s, ok := mkStream(r, 1)
			if !ok {
				continue
			}
			stream = append(s[:r.Intn(len(s)+1)], r.Bytes(r.Intn(30))...)
			if len(stream) > 10 {
				stream[10] = 2 // an unregistered codec: a garbage body is not handed to a message codec (see above)
			}
		}
		chunks := partition(r, stream, 1+r.Intn(4))
		obs, _, _, _, crash, spin := driveRead(chunks, true)
		c.Out.Case(cid, "C13", "feedg "+chunksHex(chunks), obs)
		class := ""
		if crash != "" {
			class = "crash"
		} else if spin {
			class = "spin"
		}
		c.Out.Oracle(cid, class == "", class, obs)
		c.Out.Tag(cid, "nontrivial=1 garbage=1")
		c.Out.Count(fmt.Sprintf("garbage.shape%d", shape))
	}
}
