package main

import (
	"context"
	"fmt"
	"time"

	"seata.apache.org/seata-go/pkg/protocol/branch"

	"verifharness/memdb"
)

func init() { props["SMOKE17"] = runSmoke17 }

func runSmoke17(c *Ctx) {
	w := GetATWorld()
	xa := w.OpenXA()
	t := w.NewTableName("acct")
	w.Eng.CreateTable(memdb.TableDef{Name: t, Cols: []memdb.Column{{Name: "id", Type: memdb.TBigInt}, {Name: "n", Type: memdb.TInt, Nullable: true}}, PK: []string{"id"}})
	w.Eng.InsertRows(t, memdb.Row{int64(1), int64(10)}, memdb.Row{int64(2), int64(20)})
	for _, mode := range []string{"auto-commit2", "auto-rollback2", "tx-commit2", "auto-stmtfail"} {
		w.Eng.ResetJournal()
		w.coord.ResetLog()
		var xid string
		var gerr error
		pn := safeCall(func() {
			xid, gerr = InGlobalTx("s17", func(ctx context.Context) error {
				q := "UPDATE " + t + " SET n = n + 1 WHERE id = 1"
				if mode == "auto-stmtfail" {
					q = "UPDATE " + t + " SET nosuch = 1"
				}
				if mode[:2] == "tx" {
					tx, err := xa.BeginTx(ctx, nil)
					fmt.Println(mode, "begin", err)
					if err == nil {
						_, err = tx.ExecContext(ctx, q)
						fmt.Println(mode, "exec", err)
						fmt.Println(mode, "commit", tx.Commit())
					}
				} else {
					_, err := xa.ExecContext(ctx, q)
					fmt.Println(mode, "exec", err)
				}
				return nil
			})
		})
		fmt.Println(mode, "gerr:", gerr)
		fmt.Println(mode, "panic:", pn, "table", w.DumpTable(t), "open", w.Eng.OpenTxns())
		brs := w.coord.RegisteredBranches(xid)
		for _, b := range brs {
			fmt.Println("  branch", b.BranchID, b.Type, b.ResourceID, b.LockKey, "xastate", w.Eng.XAState(fmt.Sprintf("%s-%d", xid, b.BranchID)))
			var st branch.BranchStatus
			var ok bool
			var p string
			if mode == "auto-rollback2" {
				st, ok, p = w.coord.RollbackBranch(w.coord.LastSession(), b, 3*time.Second)
			} else {
				st, ok, p = w.coord.CommitBranch(w.coord.LastSession(), b, 3*time.Second)
			}
			fmt.Println("  phase two ->", st, ok, p)
		}
		fmt.Println(mode, "after phase two table", w.DumpTable(t), "open", w.Eng.OpenTxns())
		for _, e := range w.Eng.Journal() {
			if e.Kind == "connect" || e.Table == "COLUMNS" || e.Table == "STATISTICS" {
				continue
			}
			fmt.Println("  J", e.Conn, e.Kind, e.SQL, e.Args, e.Err)
		}
		for _, l := range w.coord.Snapshot() {
			fmt.Println("  C", l.Kind)
		}
	}
}
