package main

import (
	"context"
	"errors"
	"fmt"
	"net/http"
	"net/http/httptest"
	"regexp"
	"sort"
	"strconv"
	"strings"
	"sync"
	"time"

	"dubbo.apache.org/dubbo-go/v3/protocol"
	"dubbo.apache.org/dubbo-go/v3/protocol/invocation"
	"github.com/gin-gonic/gin"
	"google.golang.org/grpc"
	"google.golang.org/grpc/metadata"

	"seata.apache.org/seata-go/pkg/constant"
	sdubbo "seata.apache.org/seata-go/pkg/integration/dubbo"
	sgin "seata.apache.org/seata-go/pkg/integration/gin"
	sgrpc "seata.apache.org/seata-go/pkg/integration/grpc"
	"seata.apache.org/seata-go/pkg/protocol/message"
	"seata.apache.org/seata-go/pkg/tm"
)

var xidRe = regexp.MustCompile(`xid\(([^)]*)\)`)

func init() { props["C07"] = runC07 }

type scopeT struct {
	mode byte // R N X S V M
	ok   bool
	// panics: the failing business does not return an error but panics (every second failing scope, by id);
	// for the transaction that is the same as a failure, and WithGlobalTx must return it as an error
	panics bool
	id     int
	body   []*scopeT
}

var c07Modes = []byte{'R', 'N', 'X', 'S', 'V', 'M'}

func propagationOf(m byte) tm.Propagation {
	switch m {
	case 'R':
		return tm.Required
	case 'N':
		return tm.RequiresNew
	case 'X':
		return tm.NotSupported
	case 'S':
		return tm.Supports
	case 'V':
		return tm.Never
	default:
		return tm.Mandatory
	}
}

func showProg(p []*scopeT) string {
	var sb strings.Builder
	for _, s := range p {
		sb.WriteByte(s.mode)
		if s.ok {
			sb.WriteByte('+')
		} else {
			sb.WriteByte('-')
		}
		sb.WriteString(strconv.Itoa(s.id))
		sb.WriteByte('[')
		sb.WriteString(showProg(s.body))
		sb.WriteByte(']')
	}
	return sb.String()
}

type c07Ev struct {
	stamp int64
	text  string
}

type c07Run struct {
	prefix string
	mu     sync.Mutex
	evs    []c07Ev
}

func (r *c07Run) add(text string) {
	r.mu.Lock()
	r.evs = append(r.evs, c07Ev{Stamp(), text})
	r.mu.Unlock()
}

func showVar(ctx context.Context, prefix string) string {
	xid := "-"
	role := "U"
	name := "-"
	if tm.IsSeataContext(ctx) {
		if x := tm.GetXID(ctx); x != "" {
			xid = "xid(" + x + ")"
		}
		if r := tm.GetTxRole(ctx); r != nil {
			switch *r {
			case tm.Launcher:
				role = "L"
			case tm.Participant:
				role = "P"
			}
		}
		if n := tm.GetTxName(ctx); n != "" {
			name = strings.TrimPrefix(n, prefix)
		}
	}
	return xid + "/" + role + "/" + name
}

func (r *c07Run) exec(ctx context.Context, prog []*scopeT, fresh bool) {
	for _, s := range prog {
		s := s
		callee := ctx
		if fresh {
			callee = context.Background()
			if x := tm.GetXID(ctx); x != "" {
				callee = tm.InitSeataContext(callee)
				tm.SetXID(callee, x)
			}
		}
		ran := false
		err := tm.WithGlobalTx(callee, &tm.GtxConfig{Name: r.prefix + strconv.Itoa(s.id), Propagation: propagationOf(s.mode), Timeout: 30 * time.Second},
			func(c context.Context) error {
				ran = true
				x := "-"
				if v := tm.GetXID(c); v != "" {
					x = "xid(" + v + ")"
				}
				r.add(fmt.Sprintf("E%d:%s", s.id, x))
				r.exec(c, s.body, fresh)
				if !s.ok && s.panics && s.id%4 == 0 {
					panic(nil) // recover() answers nil for this one (go.mod says go 1.20): still not a success
				}
				if !s.ok && s.panics {
					panic("business panicked")
				}
				if !s.ok {
					return errors.New("business failed")
				}
				return nil
			})
		if !ran && err != nil {
			r.add(fmt.Sprintf("F%d", s.id))
		}
		r.add(fmt.Sprintf("X%d:%s", s.id, showVar(ctx, r.prefix)))
	}
}

// enumerate all scope trees: every node has 0..maxKids children, depth <= depth
func enumScopes(depth int, maxKids int) []*scopeT {
	var res []*scopeT
	var kidsSets [][]*scopeT
	kidsSets = append(kidsSets, nil)
	if depth > 1 {
		sub := enumScopes(depth-1, maxKids)
		for _, a := range sub {
			kidsSets = append(kidsSets, []*scopeT{a})
		}
		if maxKids >= 2 {
			for _, a := range sub {
				for _, b := range sub {
					kidsSets = append(kidsSets, []*scopeT{a, b})
				}
			}
		}
	}
	for _, m := range c07Modes {
		for _, ok := range []bool{true, false} {
			for _, ks := range kidsSets {
				res = append(res, &scopeT{mode: m, ok: ok, body: ks})
			}
		}
	}
	return res
}

func cloneNumber(s *scopeT, next *int) *scopeT {
	*next++
	n := &scopeT{mode: s.mode, ok: s.ok, id: *next, panics: !s.ok && *next%2 == 0}
	for _, k := range s.body {
		n.body = append(n.body, cloneNumber(k, next))
	}
	return n
}

func randScope(r *Rng, depth int, next *int) *scopeT {
	*next++
	s := &scopeT{mode: c07Modes[r.Intn(6)], ok: r.Chance(65), id: *next}
	s.panics = !s.ok && *next%2 == 0
	if depth > 1 {
		nk := r.Intn(3)
		for i := 0; i < nk; i++ {
			s.body = append(s.body, randScope(r, depth-1, next))
		}
	}
	return s
}

func runC07(c *Ctx) {
	coord := Boot()
	coord.Script = nil
	tm.InitTm(tm.TmConfig{CommitRetryCount: 5, RollbackRetryCount: 5, DefaultGlobalTransactionTimeout: 60 * time.Second})
	rng := NewRng(c.Seed)

	type tcase struct {
		id    string
		prog  []*scopeT
		fresh bool
	}
	var cases []tcase
	n := 0
	addBoth := func(prog []*scopeT) {
		for _, fresh := range []bool{false, true} {
			n++
			id := fmt.Sprintf("c07-%d", n)
			if c.Want(id) {
				cases = append(cases, tcase{id, prog, fresh})
			}
		}
	}
	// complete: depth <= 2 with up to 2 children (1884 trees), each on a shared and on fresh contexts
	for _, t := range enumScopes(2, 2) {
		next := 0
		addBoth([]*scopeT{cloneNumber(t, &next)})
	}
	// two top-level siblings on the same context (sequential reuse of one context)
	singles := enumScopes(1, 0)
	for _, a := range singles {
		for _, b := range singles {
			next := 0
			addBoth([]*scopeT{cloneNumber(a, &next), cloneNumber(b, &next)})
		}
	}
	if c.Tier == "thorough" {
		// complete depth 3 with single-child chains and all 2-child fans at depth 2 under every root
		for _, t := range enumScopes(3, 1) {
			next := 0
			addBoth([]*scopeT{cloneNumber(t, &next)})
		}
	}
	for i := 0; i < c.Budget(600, 60000); i++ {
		r := rng.Fork()
		next := 0
		var prog []*scopeT
		for k := 0; k < 1+r.Intn(2); k++ {
			prog = append(prog, randScope(r, 3, &next))
		}
		addBoth(prog)
	}

	var wg sync.WaitGroup
	sem := make(chan struct{}, 32)
	runs := make([]*c07Run, len(cases))
	for i, tc := range cases {
		i, tc := i, tc
		wg.Add(1)
		sem <- struct{}{}
		go func() {
			defer wg.Done()
			defer func() { <-sem }()
			r := &c07Run{prefix: tc.id + "-"}
			runs[i] = r
			p := safeCall(func() {
				ctx := tm.InitSeataContext(context.Background())
				r.exec(ctx, tc.prog, tc.fresh)
			})
			if p != "" {
				r.add("crash:" + strings.ReplaceAll(p, " ", "_"))
			}
		}()
	}
	wg.Wait()
	// coordinator events per case: begins by name prefix, commit/rollback by xid
	log := coord.Snapshot()
	xidOwner := map[string]int{} // xid -> case index
	beginIdx := make([]map[string]int, len(cases))
	counters := make([]int, len(cases))
	caseOf := map[string]int{}
	for i, tc := range cases {
		caseOf[tc.id+"-"] = i
	}
	// a begin request and the xid answered: pair through the reply order — the coordinator hands out
	// xids in the order it logs begins, so replay the allocation: NewXid is called once per begin
	// in log order.  We recover the xid from later requests instead: look at what the scope saw.
	// Simpler and exact: each case learns its xids from its own E/X events in order of first sight.
	for i, r := range runs {
		for _, e := range r.evs {
			for _, m := range xidRe.FindAllStringSubmatch(e.text, -1) {
				x := m[1]
				if _, ok := xidOwner[x]; !ok {
					xidOwner[x] = i
					if beginIdx[i] == nil {
						beginIdx[i] = map[string]int{}
					}
					beginIdx[i][x] = counters[i]
					counters[i]++
				}
			}
		}
	}
	for _, l := range log {
		switch b := l.Msg.Body.(type) {
		case message.GlobalBeginRequest:
			// name = <case>-<scope>
			k := strings.LastIndex(b.TransactionName, "-")
			if k < 0 {
				continue
			}
			if i, ok := caseOf[b.TransactionName[:k+1]]; ok {
				runs[i].evs = append(runs[i].evs, c07Ev{l.Stamp, "B" + b.TransactionName[k+1:] + ":?"})
			}
		case message.GlobalCommitRequest:
			if i, ok := xidOwner[b.Xid]; ok {
				runs[i].evs = append(runs[i].evs, c07Ev{l.Stamp, "c" + "xid(" + b.Xid + ")"})
			}
		case message.GlobalRollbackRequest:
			if i, ok := xidOwner[b.Xid]; ok {
				runs[i].evs = append(runs[i].evs, c07Ev{l.Stamp, "r" + "xid(" + b.Xid + ")"})
			}
		}
	}
	for i, tc := range cases {
		r := runs[i]
		sort.SliceStable(r.evs, func(a, b int) bool { return r.evs[a].stamp < r.evs[b].stamp })
		// number xids by order of begin: the k-th "B" event of the case is xid k (the enter event that
		// follows a begin shows the real xid; map by first sight order, which is begin order)
		var toks []string
		nb := 0
		for _, e := range r.evs {
			t := e.text
			if strings.HasPrefix(t, "B") && strings.HasSuffix(t, ":?") {
				t = strings.TrimSuffix(t, "?") + strconv.Itoa(nb)
				nb++
			}
			for x, idx := range beginIdx[i] {
				t = strings.ReplaceAll(t, "xid("+x+")", strconv.Itoa(idx))
			}
			toks = append(toks, t)
		}
		obs := strings.Join(toks, " ")
		sh := "shared"
		if tc.fresh {
			sh = "fresh"
		}
		c.Out.Case(tc.id, "C07", "run "+sh+" "+showProg(tc.prog), obs)
		// oracle on the implementation alone: every begun xid is ended exactly once, by commit iff its
		// scope's callback succeeded; nothing else is ended; no crash
		ok := true
		detail := ""
		begun := map[string]string{} // xid idx -> scope id
		ended := map[string]int{}
		for _, t := range toks {
			switch {
			case strings.HasPrefix(t, "crash"):
				ok, detail = false, t
			case strings.HasPrefix(t, "B"):
				p := strings.SplitN(t[1:], ":", 2)
				begun[p[1]] = p[0]
			case strings.HasPrefix(t, "c") || strings.HasPrefix(t, "r"):
				ended[t[1:]]++
				sc, known := begun[t[1:]]
				if !known {
					ok, detail = false, "ended an xid this program did not begin: "+t
				} else {
					want := findScope(tc.prog, sc)
					if want != nil && (want.ok != (t[0] == 'c')) {
						ok, detail = false, fmt.Sprintf("scope %s outcome %v but %s", sc, want.ok, t)
					}
				}
			}
		}
		for x := range begun {
			if ended[x] != 1 {
				ok, detail = false, fmt.Sprintf("xid %s begun by scope %s ended %d times", x, begun[x], ended[x])
			}
		}
		c.Out.Oracle(tc.id, ok, "propagation", detail+" | "+obs)
		nt := 0
		if len(tc.prog) > 1 || len(tc.prog[0].body) > 0 {
			nt = 1
		}
		c.Out.Tag(tc.id, fmt.Sprintf("nontrivial=%d", nt))
		c.Out.Count("sharing." + sh)
		c.Out.Count(fmt.Sprintf("depth.%d", depthOf(tc.prog)))
	}
	coord.ResetLog()
	runC07BeginRefused(c)
	runC07Integrations(c, rng)
}

// ---- an inner scope that has to begin a transaction of its own (RequiresNew) and is refused by the
// coordinator: it fails without running its business, and the enclosing transaction's xid, role and name
// are intact afterwards, so that it still completes its own second phase (decided by the oracle alone)

func runC07BeginRefused(c *Ctx) {
	coord := Boot()
	n := 0
	for _, outerMode := range []byte{'R', 'N'} {
		for _, outerOK := range []bool{true, false} {
			for _, fault := range []string{"refused", "transport"} {
				for _, swallow := range []bool{false, true} {
					n++
					cid := fmt.Sprintf("c07-bf-%d", n)
					if !c.Want(cid) {
						continue
					}
					coord.ResetLog()
					inner := cid + "-inner"
					coord.Script = func(s *FakeSession, kind string, m message.RpcMessage) Action {
						if b, ok := m.Body.(message.GlobalBeginRequest); ok && b.TransactionName == inner {
							if fault == "transport" {
								return Action{TransportE: true}
							}
							return Action{Body: message.GlobalBeginResponse{AbstractTransactionResponse: failHead("begin refused")}}
						}
						return Action{}
					}
					var before, after, outerXid string
					var innerErr, outerErr error
					innerRan := false
					crash := safeCall(func() {
						ctx := tm.InitSeataContext(context.Background())
						outerErr = tm.WithGlobalTx(ctx, &tm.GtxConfig{Name: cid + "-outer", Propagation: propagationOf(outerMode), Timeout: 30 * time.Second}, func(cx context.Context) error {
							outerXid = tm.GetXID(cx)
							before = showVar(cx, cid+"-")
							innerErr = tm.WithGlobalTx(cx, &tm.GtxConfig{Name: inner, Propagation: tm.RequiresNew, Timeout: 30 * time.Second}, func(context.Context) error {
								innerRan = true
								return nil
							})
							after = showVar(cx, cid+"-")
							if innerErr != nil && !swallow {
								return innerErr
							}
							if !outerOK {
								return errors.New("business failed")
							}
							return nil
						})
					})
					coord.Script = nil
					commits, rollbacks := 0, 0
					for _, l := range coord.Snapshot() {
						switch b := l.Msg.Body.(type) {
						case message.GlobalCommitRequest:
							if b.Xid == outerXid {
								commits++
							}
						case message.GlobalRollbackRequest:
							if b.Xid == outerXid {
								rollbacks++
							}
						}
					}
					wantCommit := outerOK && swallow
					okEnd := (wantCommit && commits == 1 && rollbacks == 0) || (!wantCommit && commits == 0 && rollbacks == 1)
					ok := crash == "" && innerErr != nil && !innerRan && before == after && outerXid != "" && okEnd && (wantCommit == (outerErr == nil))
					c.Out.Case(cid, "C07", "skip", "skip")
					c.Out.Oracle(cid, ok, "begin_refused_inside_a_transaction", fmt.Sprintf("outer %c ok=%v fault=%s swallow=%v: inner err=%v ran=%v; enclosing %s -> %s; outer err=%v; commits=%d rollbacks=%d for %s crash=%s",
						outerMode, outerOK, fault, swallow, innerErr, innerRan, before, after, outerErr, commits, rollbacks, outerXid, crash))
					c.Out.Tag(cid, "nontrivial=1")
					c.Out.Count("begin-refused." + fault)
				}
			}
		}
	}
	coord.ResetLog()
}

func findScope(p []*scopeT, id string) *scopeT {
	for _, s := range p {
		if strconv.Itoa(s.id) == id {
			return s
		}
		if r := findScope(s.body, id); r != nil {
			return r
		}
	}
	return nil
}

func depthOf(p []*scopeT) int {
	d := 0
	for _, s := range p {
		if k := 1 + depthOf(s.body); k > d {
			d = k
		}
	}
	return d
}

// ---- integrations: an xid injected by the client side arrives unchanged at the server side and
// makes the callee a participant (no second phase) ----

type stubInvoker struct {
	protocol.BaseInvoker
	seen func(ctx context.Context, inv protocol.Invocation)
}

func (s *stubInvoker) Invoke(ctx context.Context, inv protocol.Invocation) protocol.Result {
	s.seen(ctx, inv)
	return &protocol.RPCResult{}
}

func runC07Integrations(c *Ctx, rng *Rng) {
	coord := Boot()
	gin.SetMode(gin.ReleaseMode)
	nI := c.Budget(120, 3000)
	for i := 0; i < nI; i++ {
		r := rng.Fork()
		cid := fmt.Sprintf("c07-int-%d", i)
		if !c.Want(cid) {
			continue
		}
		// xid strings: ip:port:id and arbitrary printable header-safe strings
		var xid string
		switch r.Intn(3) {
		case 0:
			xid = fmt.Sprintf("10.0.%d.%d:8091:%d", r.Intn(256), r.Intn(256), r.U64()%1e15)
		case 1:
			xid = "x" + strings.Map(func(c rune) rune {
				if c < 33 || c > 126 {
					return 'a' + c%26
				}
				return c
			}, string(genBytes(r, 40)))
		default:
			xid = fmt.Sprintf("%d", r.U64())
		}
		kind := []string{"grpc", "grpc-lower", "gin", "gin-lower", "dubbo-go", "dubbo-java", "dubbo-go-lower", "dubbo-java-lower", "grpc-relay", "grpc-relay-lower"}[r.Intn(10)]
		coord.ResetLog()
		got := ""
		role := ""
		ended := 0
		callee := func(ctx context.Context) {
			got = tm.GetXID(ctx)
			// the callee opens a Required scope: it must join, not begin, and must not end the transaction
			tm.WithGlobalTx(ctx, &tm.GtxConfig{Name: cid + "-callee"}, func(c2 context.Context) error {
				if rp := tm.GetTxRole(c2); rp != nil {
					role = rp.String()
				}
				return nil
			})
		}
		caller := tm.InitSeataContext(context.Background())
		tm.SetXID(caller, xid)
		p := safeCall(func() {
			switch kind {
			case "grpc", "grpc-lower", "grpc-relay", "grpc-relay-lower":
				var outMD metadata.MD
				callerCtx := caller
				if strings.HasPrefix(kind, "grpc-relay") {
					// a relay: it was called inside another transaction, forwards the metadata it received on its
					// own calls (trace headers ...) and has meanwhile begun a transaction of its own
					key := constant.XidKey
					if kind == "grpc-relay-lower" {
						key = constant.XidKeyLowercase
					}
					callerCtx = metadata.NewOutgoingContext(caller, metadata.Pairs(key, "10.9.9.9:8091:stale"+xid, "x-trace", "t1"))
				}
				sgrpc.ClientTransactionInterceptor(callerCtx, "/svc/m", nil, nil, nil,
					func(ctx context.Context, method string, req, reply interface{}, cc *grpc.ClientConn, opts ...grpc.CallOption) error {
						outMD, _ = metadata.FromOutgoingContext(ctx)
						return nil
					})
				if kind == "grpc-lower" { // a peer that sends the lower-case spelling
					outMD = metadata.New(map[string]string{constant.XidKeyLowercase: xid})
				}
				sgrpc.ServerTransactionInterceptor(metadata.NewIncomingContext(context.Background(), outMD), nil, nil,
					func(ctx context.Context, req interface{}) (interface{}, error) { callee(ctx); return nil, nil })
			case "gin", "gin-lower":
				eng := gin.New()
				eng.ContextWithFallback = true
				eng.Use(sgin.TransactionMiddleware())
				eng.GET("/x", func(gc *gin.Context) { callee(gc.Request.Context()); gc.Status(200) })
				req := httptest.NewRequest(http.MethodGet, "/x", nil)
				if kind == "gin" {
					req.Header.Set(constant.XidKey, xid)
				} else {
					req.Header.Set(constant.XidKeyLowercase, xid)
				}
				eng.ServeHTTP(httptest.NewRecorder(), req)
			default:
				f := sdubbo.GetDubboTransactionFilter()
				// client side: the filter copies the xid of the context into the attachments
				inv := invocation.NewRPCInvocation("m", nil, map[string]interface{}{})
				f.Invoke(caller, &stubInvoker{seen: func(ctx context.Context, i protocol.Invocation) {}}, inv)
				att := map[string]interface{}{}
				switch kind {
				case "dubbo-go":
					att[constant.SeataXidKey], _ = inv.GetAttachment(constant.SeataXidKey)
				case "dubbo-java":
					att[constant.XidKey], _ = inv.GetAttachment(constant.XidKey)
				case "dubbo-go-lower":
					att[strings.ToLower(constant.SeataXidKey)] = xid
				case "dubbo-java-lower":
					att[strings.ToLower(constant.XidKey)] = xid
				}
				// server side: a context without xid, the attachments carry it
				inv2 := invocation.NewRPCInvocation("m", nil, att)
				f.Invoke(context.Background(), &stubInvoker{seen: func(ctx context.Context, i protocol.Invocation) { callee(ctx) }}, inv2)
			}
		})
		for _, l := range coord.Snapshot() {
			if l.Kind == "GlobalBegin" || l.Kind == "GlobalCommit" || l.Kind == "GlobalRollback" {
				ended++
			}
		}
		obs := fmt.Sprintf("arrived=%v role=%s coordinator-requests=%d", got == xid, role, ended)
		if p != "" {
			obs = "crash " + strings.ReplaceAll(p, " ", "_")
		}
		c.Out.Case(cid, "C07", "carry "+kind, obs)
		c.Out.Oracle(cid, p == "" && got == xid && role == "Participant" && ended == 0, "integration", kind+" xid="+xid+" got="+got+" | "+obs)
		c.Out.Tag(cid, "nontrivial=1 hash="+kind+xid)
		c.Out.Count("integration." + kind)
	}
	coord.ResetLog()
}
