package main

import (
	"context"
	"database/sql"
	"fmt"
	"strings"
	"time"

	"verifharness/memdb"
)

// ---- C16, mixed phases on ONE connection: statements before, inside and after a global transaction on a
// connection the application keeps (db.Conn) or on a pool of one connection; statements prepared in one phase
// and executed in another. Outside the global transaction the proxy must send exactly what the bare driver
// sends and talk to no coordinator; everywhere the results and the data must be the bare driver's.

type c16mStep struct {
	phase int    // 0 before, 1 inside, 2 after the global transaction
	kind  string // exec prepare pexec begin commit rollback query
	id    int    // exec: the row; prepare/pexec: which prepared statement
}

type c16mRun struct {
	outs     []string
	journals [3][]string
	coord    [3]int
	final    string
	crash    string
}

func runC16MixedProgram(w *ATWorld, db *sql.DB, proxied bool, pinned bool, table string, steps []c16mStep, commitGlobal bool, name string) *c16mRun {
	res := &c16mRun{}
	res.crash = safeCall(func() {
		type execer interface {
			ExecContext(ctx context.Context, q string, args ...interface{}) (sql.Result, error)
			QueryContext(ctx context.Context, q string, args ...interface{}) (*sql.Rows, error)
			PrepareContext(ctx context.Context, q string) (*sql.Stmt, error)
			BeginTx(ctx context.Context, opts *sql.TxOptions) (*sql.Tx, error)
		}
		var base execer = db
		if pinned {
			conn, err := db.Conn(context.Background())
			if err != nil {
				panic(err)
			}
			defer func() {
				// a driver that panics inside Commit leaves database/sql's transaction holding the connection for
				// good: closing it would wait for ever
				closed := make(chan struct{})
				go func() { conn.Close(); close(closed) }()
				select {
				case <-closed:
				case <-time.After(2 * time.Second):
				}
			}()
			base = conn
		}
		var tx *sql.Tx
		stmts := map[int]*sql.Stmt{}
		defer func() {
			// (also on the way out of a panic: a transaction left open keeps its connection locked)
			if tx != nil {
				safeCall(func() { tx.Rollback() })
			}
			for _, ps := range stmts {
				ps.Close()
			}
		}()
		show := func(r sql.Result, err error) string {
			if err != nil {
				return errText(err)
			}
			n, _ := r.RowsAffected()
			return fmt.Sprintf("ok:%d", n)
		}
		runPhase := func(ctx context.Context, phase int) {
			// nothing here may wait for ever (a connection pool of one whose connection a crashed case kept)
			ctx, cancel := context.WithTimeout(ctx, 20*time.Second)
			defer cancel()
			w.Eng.ResetJournal()
			c0 := len(w.coord.Snapshot())
			for _, s := range steps {
				if s.phase != phase {
					continue
				}
				switch s.kind {
				case "exec":
					q := "UPDATE " + table + " SET n = n + 1 WHERE id = ?"
					var arg interface{} = s.id
					if s.id >= 100 {
						// an argument only the target driver's own argument check lets through: a uint64 with its high
						// bit set (no row has such a key)
						arg = uint64(1)<<63 + uint64(s.id)
					}
					if tx != nil {
						res.outs = append(res.outs, show(tx.ExecContext(ctx, q, arg)))
					} else {
						res.outs = append(res.outs, show(base.ExecContext(ctx, q, arg)))
					}
				case "query":
					q := "SELECT id, n FROM " + table + " WHERE id = ?"
					var rows *sql.Rows
					var err error
					if tx != nil {
						rows, err = tx.QueryContext(ctx, q, s.id)
					} else {
						rows, err = base.QueryContext(ctx, q, s.id)
					}
					if err != nil {
						res.outs = append(res.outs, errText(err))
					} else {
						res.outs = append(res.outs, scanAll(rows))
					}
				case "prepare":
					q := "UPDATE " + table + " SET n = n + 10 WHERE id = ?"
					var ps *sql.Stmt
					var err error
					if tx != nil {
						ps, err = tx.PrepareContext(ctx, q)
					} else {
						ps, err = base.PrepareContext(ctx, q)
					}
					if err != nil {
						res.outs = append(res.outs, "prepare-"+errText(err))
					} else {
						stmts[s.id] = ps
						res.outs = append(res.outs, "-")
					}
				case "pexec":
					ps := stmts[s.id]
					if ps == nil {
						res.outs = append(res.outs, "-")
						continue
					}
					if tx != nil {
						res.outs = append(res.outs, show(tx.StmtContext(ctx, ps).ExecContext(ctx, 1+s.id%3)))
					} else {
						res.outs = append(res.outs, show(ps.ExecContext(ctx, 1+s.id%3)))
					}
				case "savepoint", "rollbackto", "release":
					q := map[string]string{"savepoint": "SAVEPOINT app_sp", "rollbackto": "ROLLBACK TO SAVEPOINT app_sp", "release": "RELEASE SAVEPOINT app_sp"}[s.kind]
					if tx != nil {
						res.outs = append(res.outs, show(tx.ExecContext(ctx, q)))
					} else {
						res.outs = append(res.outs, "-")
					}
				case "begin":
					if tx != nil {
						res.outs = append(res.outs, "-")
						continue
					}
					t, err := base.BeginTx(ctx, nil)
					if err != nil {
						res.outs = append(res.outs, errText(err))
					} else {
						tx = t
						res.outs = append(res.outs, "-")
					}
				case "commit", "rollback":
					if tx == nil {
						res.outs = append(res.outs, "-")
						continue
					}
					var err error
					if s.kind == "commit" {
						err = tx.Commit()
					} else {
						err = tx.Rollback()
					}
					tx = nil
					if err != nil {
						res.outs = append(res.outs, errText(err))
					} else {
						res.outs = append(res.outs, "-")
					}
				}
			}
			if tx != nil {
				// a local transaction never spans a phase boundary
				tx.Rollback()
				tx = nil
			}
			for _, e := range w.Eng.Journal() {
				if e.Kind == "connect" || e.Kind == "close" || strings.EqualFold(e.Table, "columns") || strings.EqualFold(e.Table, "statistics") {
					continue
				}
				if phase != 1 && strings.EqualFold(e.Table, "undo_log") {
					// the asynchronous worker deleting the undo logs of global transactions that were committed
					// earlier (on a connection of its own): not a statement of this program
					continue
				}
				res.journals[phase] = append(res.journals[phase], fmt.Sprintf("%s|%s|%v|%s", e.Kind, strings.ReplaceAll(e.SQL, table, "{T}"), e.Args, e.Err))
			}
			res.coord[phase] = len(w.coord.Snapshot()) - c0
		}
		runPhase(context.Background(), 0)
		if proxied {
			var xid string
			xid, _ = InGlobalTx(name, func(ctx context.Context) error {
				runPhase(ctx, 1)
				if !commitGlobal {
					return fmt.Errorf("roll the global transaction back")
				}
				return nil
			})
			// phase two for every branch, so that the data is what a plain driver would have left
			for _, b := range w.coord.RegisteredBranches(xid) {
				if commitGlobal {
					w.coord.CommitBranch(w.coord.LastSession(), b, 3*time.Second)
				} else {
					w.coord.RollbackBranch(w.coord.LastSession(), b, 3*time.Second)
				}
			}
		} else {
			runPhase(context.Background(), 1)
		}
		runPhase(context.Background(), 2)
	})
	res.final = w.DumpTable(table)
	return res
}

func runC16Mixed(c *Ctx) {
	w := GetATWorld()
	xa := w.OpenXA()
	rng := NewRng(c.Seed + 1616)
	n := c.Budget(40, 600)
	for i := 0; i < n; i++ {
		r := rng.Fork()
		cid := fmt.Sprintf("c16-m%d", i)
		mode := []string{"at", "xa"}[i%2]
		pinned := i%4 < 2
		// ---- the program
		var steps []c16mStep
		nPrep := 0
		for phase := 0; phase < 3; phase++ {
			k := 1 + r.Intn(4)
			inTx := false
			// XA inside the global transaction: every statement (or local transaction) is a branch of its own that
			// stays prepared, with its row locks, until phase two — a row is written once, and not read afterwards
			usedXA := map[int]bool{}
			xaInside := mode == "xa" && phase == 1
			for j := 0; j < k; j++ {
				x := r.Intn(10)
				if xaInside {
					switch {
					case x < 4:
						x = 9 // no reads
					case x >= 6 && x < 8 && nPrep > 0:
						id := r.Intn(nPrep)
						if usedXA[1+id%3] {
							continue
						}
						usedXA[1+id%3] = true
						steps = append(steps, c16mStep{phase, "pexec", id})
						continue
					}
					if x < 3 || x >= 9 || (x >= 6 && x < 8) {
						id := 1 + r.Intn(3)
						if usedXA[id] {
							continue
						}
						usedXA[id] = true
						steps = append(steps, c16mStep{phase, "exec", id})
						continue
					}
				}
				switch {
				case xaInside && x < 8 && nPrep >= 3:
					// (no further prepared statement to make, and executing one is the used-row business above)
					continue
				case x < 3 && r.Chance(15):
					steps = append(steps, c16mStep{phase, "exec", 100 + r.Intn(3)})
				case x < 3:
					steps = append(steps, c16mStep{phase, "exec", 1 + r.Intn(3)})
				case x < 4:
					steps = append(steps, c16mStep{phase, "query", 1 + r.Intn(3)})
				case x < 6 && nPrep < 3:
					steps = append(steps, c16mStep{phase, "prepare", nPrep})
					nPrep++
				case x < 8 && nPrep > 0:
					steps = append(steps, c16mStep{phase, "pexec", r.Intn(nPrep)})
				case x < 9 && !inTx:
					steps = append(steps, c16mStep{phase, "begin", 0})
					inTx = true
				case inTx && phase != 1 && r.Chance(40):
					// savepoints of the application's own, outside the global transaction: statements the proxy has
					// no business with (inside, it refuses them: its undo log could not follow a partial rollback)
					steps = append(steps, c16mStep{phase, "savepoint", 0}, c16mStep{phase, "exec", 1 + r.Intn(3)},
						c16mStep{phase, []string{"rollbackto", "release"}[r.Intn(2)], 0})
				case inTx:
					steps = append(steps, c16mStep{phase, []string{"commit", "rollback"}[r.Intn(2)], 0})
					inTx = false
				default:
					steps = append(steps, c16mStep{phase, "exec", 1 + r.Intn(3)})
				}
			}
			if inTx {
				steps = append(steps, c16mStep{phase, "commit", 0})
			}
		}
		if !c.Want(cid) {
			continue
		}
		tA, tB := w.NewTableName("mix"), ""
		tB = tA + "b"
		for _, tn := range []string{tA, tB} {
			w.Eng.CreateTable(memdb.TableDef{Name: tn, Cols: []memdb.Column{{Name: "id", Type: memdb.TBigInt}, {Name: "n", Type: memdb.TBigInt, Nullable: true}}, PK: []string{"id"}})
			w.Eng.InsertRows(tn, memdb.Row{int64(1), int64(0)}, memdb.Row{int64(2), int64(0)}, memdb.Row{int64(3), int64(0)})
		}
		w.SetUndoConfig("json", "None", true, false)
		db := w.DB
		if mode == "xa" {
			db = xa
		}
		if !pinned {
			db.SetMaxOpenConns(1)
			w.Bare.SetMaxOpenConns(1)
		}
		bare := runC16MixedProgram(w, w.Bare, false, pinned, tB, steps, true, cid)
		prox := runC16MixedProgram(w, db, true, pinned, tA, steps, true, cid)
		if !pinned {
			db.SetMaxOpenConns(0)
			w.Bare.SetMaxOpenConns(0)
		}
		var toks []string
		for _, s := range steps {
			toks = append(toks, fmt.Sprintf("%d%s%d", s.phase, s.kind, s.id))
		}
		c.Out.Case(cid, "C16", "skip", "skip")
		class, detail := "", ""
		fail := func(cl, d string) {
			if class == "" {
				class, detail = cl, d
			}
		}
		if prox.crash != "" || bare.crash != "" {
			fail("crash", prox.crash+bare.crash)
		}
		for k := range steps {
			if k < len(prox.outs) && k < len(bare.outs) && prox.outs[k] != bare.outs[k] {
				fail("different_result", fmt.Sprintf("step %d (%s): proxy %s, bare driver %s", k, toks[k], prox.outs[k], bare.outs[k]))
			}
		}
		if len(prox.outs) != len(bare.outs) {
			fail("different_result", "step counts differ")
		}
		if strings.ReplaceAll(prox.final, tA, "") != strings.ReplaceAll(bare.final, tB, "") {
			fail("different_data", fmt.Sprintf("proxy leaves %s, bare driver %s", prox.final, bare.final))
		}
		for _, phase := range []int{0, 2} {
			if prox.coord[phase] != 0 {
				fail("coordinator_traffic_outside_global_tx", fmt.Sprintf("phase %d: %d requests", phase, prox.coord[phase]))
			}
			pj, bj := strings.Join(prox.journals[phase], " ## "), strings.Join(bare.journals[phase], " ## ")
			if pj != bj {
				fail("different_statements_reached_the_database", fmt.Sprintf("phase %d: proxy: %s ### bare: %s", phase, pj, bj))
			}
		}
		if len(w.Eng.OpenTxns()) > 0 {
			fail("transaction_left_open", fmt.Sprint(w.Eng.OpenTxns()))
		}
		c.Out.Oracle(cid, class == "", class, fmt.Sprintf("%s | mode=%s pinned=%v program=%s", detail, mode, pinned, strings.Join(toks, " ")))
		c.Out.Tag(cid, "nontrivial=1")
		c.Out.Count("mixed." + mode + fmt.Sprintf(".pinned=%v", pinned))
		w.Eng.DropTable(tA)
		w.Eng.DropTable(tB)
		if prox.crash != "" || bare.crash != "" {
			// a crash inside database/sql's Commit keeps the connection for good: the cases after it would only
			// report that
			break
		}
	}
}
