package main

import (
	"context"
	"errors"
	"fmt"
	"strings"
	"time"

	"verifharness/memdb"
)

func init() { props["SMOKE8"] = runSmokeForms }

func runSmokeForms(c *Ctx) {
	w := GetATWorld()
	w.SetUndoConfig("json", "None", true, false)
	for _, q := range []string{
		"update {T} set n = n + 1 where id = 1",
		"UPDATE {T} SET n = n + 1 WHERE id = 1;",
		"  UPDATE   {T}\n SET n = n + 1\n WHERE id = 1  ",
		"/* hint */ UPDATE {T} SET n = n + 1 WHERE id = 1",
		"UPDATE {T} AS a SET a.n = a.n + 1 WHERE a.id = 1",
		"UPDATE {T} a SET n = n + 1 WHERE a.id = 1",
		"DELETE FROM {T} AS a WHERE a.id = 1",
		"INSERT INTO {T} VALUES (9, 90, 'x')",
		"INSERT INTO {T} SET id = 9, n = 90, s = 'x'",
		"INSERT IGNORE INTO {T} (id, n, s) VALUES (1, 5, 'dup')",
		"INSERT IGNORE INTO {T} (id, n, s) VALUES (9, 5, 'new')",
		"REPLACE INTO {T} (id, n, s) VALUES (1, 5, 'r')",
		"UPDATE {T} SET n = n * 2, s = CONCAT(s, '!') WHERE id IN (1, 2)",
		"UPDATE {T} SET s = UPPER(s) WHERE n BETWEEN 5 AND 25",
		"UPDATE {T} SET n = (SELECT 7) WHERE id = 1",
		"UPDATE {T} SET n = 3 WHERE s LIKE 'a%'",
		"UPDATE {T} SET n = 3 WHERE id = 1 LIMIT 1",
		"DELETE FROM {T} WHERE id IN (SELECT 2)",
		"UPDATE {T} SET n = 3 WHERE id = 1 OR 1 = 1",
		"INSERT INTO {T} (id, n, s) SELECT 9, 9, 'sel'",
		"TRUNCATE TABLE {T}",
	} {
		t := w.NewTableName("form")
		w.Eng.CreateTable(memdb.TableDef{Name: t, Cols: []memdb.Column{{Name: "id", Type: memdb.TBigInt}, {Name: "n", Type: memdb.TInt, Nullable: true}, {Name: "s", Type: memdb.TVarchar, Length: 32, Nullable: true}}, PK: []string{"id"}})
		w.Eng.InsertRows(t, memdb.Row{int64(1), int64(10), "a"}, memdb.Row{int64(2), int64(20), "ab"}, memdb.Row{int64(3), int64(30), "b"})
		before := w.DumpTable(t)
		// what the bare driver does
		bareErr := w.Eng.Exec(strings.ReplaceAll(q, "{T}", t))
		bare := w.DumpTable(t)
		w.Eng.Exec("DELETE FROM " + t)
		w.Eng.InsertRows(t, memdb.Row{int64(1), int64(10), "a"}, memdb.Row{int64(2), int64(20), "ab"}, memdb.Row{int64(3), int64(30), "b"})
		w.coord.ResetLog()
		var execErr error
		xid, _ := InGlobalTx("forms", func(ctx context.Context) error {
			_, execErr = w.DB.ExecContext(ctx, strings.ReplaceAll(q, "{T}", t))
			return errors.New("roll back")
		})
		mid := w.DumpTable(t)
		out := ""
		brs := w.coord.RegisteredBranches(xid)
		for i := len(brs) - 1; i >= 0; i-- {
			st, ok, _ := w.coord.RollbackBranch(w.coord.LastSession(), brs[i], 3*time.Second)
			out += fmt.Sprintf("[%s -> %v %v] ", brs[i].LockKey, st, ok)
		}
		final := w.DumpTable(t)
		verdict := "OK"
		switch {
		case (bareErr == nil) != (execErr == nil):
			verdict = "DIFFERS-FROM-BARE"
		case execErr == nil && mid != bare:
			verdict = "DIFFERENT-DATA"
		}
		if final != before {
			verdict += " NOT-RESTORED"
		}
		fmt.Printf("%-18s %s\n     bare err=%v | proxy err=%v | branches=%d %s\n", verdict, strings.ReplaceAll(q, "\n", " "), bareErr, execErr, len(brs), out)
		w.Eng.Exec("DELETE FROM undo_log")
	}
}
