package main

import (
	"context"
	"database/sql"
	"errors"
	"fmt"
	"strings"
	"sync"
	"time"

	"seata.apache.org/seata-go/pkg/rm/tcc/fence"
	"seata.apache.org/seata-go/pkg/rm/tcc/fence/enum"
	"seata.apache.org/seata-go/pkg/tm"

	"verifharness/memdb"
)

func init() { props["C06"] = runC06 }

type fenceWorld struct {
	eng *memdb.Engine
	db  *sql.DB
}

func newFenceWorld() *fenceWorld {
	e := memdb.New("fence")
	e.CreateFenceLogTable()
	e.CreateTable(memdb.TableDef{Name: "effects", Cols: []memdb.Column{
		{Name: "id", Type: memdb.TBigInt, AutoInc: true},
		{Name: "branch", Type: memdb.TBigInt},
		{Name: "phase", Type: memdb.TVarchar, Length: 16},
	}, PK: []string{"id"}})
	db := sql.OpenDB(e.Connector())
	db.SetMaxOpenConns(4)
	db.SetMaxIdleConns(4)
	var one int
	db.QueryRow("SELECT 1").Scan(&one) // open the pooled connection before any fault is armed
	return &fenceWorld{eng: e, db: db}
}

func (w *fenceWorld) close() { w.db.Close() }

// deliver one phase for a branch through the real fence.WithFence; fault = k-th statement of the
// local transaction fails (0 = none); cbFails = the business callback returns an error.
func (w *fenceWorld) deliver(branch int64, phase byte, fault int, cbFails bool) (string, string) {
	return w.deliverWith(branch, phase, fault, cbFails)
}

func (w *fenceWorld) deliverWith(branch int64, phase byte, fault int, cbFails bool) (string, string) {
	ctx := tm.InitSeataContext(context.Background())
	tm.SetBusinessActionContext(ctx, &tm.BusinessActionContext{Xid: "10.0.0.1:8091:77", BranchId: branch, ActionName: "action"})
	name := ""
	switch phase {
	case 'P':
		tm.SetFencePhase(ctx, enum.FencePhasePrepare)
		name = "try"
	case 'C':
		tm.SetFencePhase(ctx, enum.FencePhaseCommit)
		name = "confirm"
	default:
		tm.SetFencePhase(ctx, enum.FencePhaseRollback)
		name = "cancel"
	}
	if fault > 0 {
		w.eng.AddFault(memdb.Fault{Nth: fault})
	}
	if fault >= 0 {
		defer w.eng.ClearFaults()
	}
	res := "ok"
	pn := safeCall(func() {
		tx, err := w.db.BeginTx(ctx, &sql.TxOptions{})
		if err != nil {
			res = "refused"
			return
		}
		err = fence.WithFence(ctx, tx, func() error {
			if _, e := tx.Exec("INSERT INTO effects (branch, phase) VALUES (?, ?)", branch, name); e != nil {
				return e
			}
			if cbFails {
				return errors.New("business failed")
			}
			return nil
		})
		if err != nil {
			tx.Rollback()
			res = "refused"
			return
		}
		if err = tx.Commit(); err != nil {
			res = "refused"
		}
	})
	if pn != "" {
		res = "crash"
	}
	return res, w.state(branch)
}

// deliverKeepFaults is deliver without touching the armed faults (several deliveries share them)
func (w *fenceWorld) deliverKeepFaults(branch int64, phase byte) (string, string) {
	return w.deliverWith(branch, phase, -1, false)
}

func (w *fenceWorld) state(branch int64) string {
	row := "-"
	for _, r := range w.eng.Dump("tcc_fence_log") {
		if fmt.Sprint(r[1]) == fmt.Sprint(branch) {
			switch fmt.Sprint(r[3]) {
			case "1":
				row = "tried"
			case "2":
				row = "committed"
			case "3":
				row = "rollbacked"
			case "4":
				row = "suspended"
			default:
				row = "status(" + fmt.Sprint(r[3]) + ")"
			}
		}
	}
	t, c, k := 0, 0, 0
	for _, r := range w.eng.Dump("effects") {
		if fmt.Sprint(r[1]) != fmt.Sprint(branch) {
			continue
		}
		switch fmt.Sprint(r[2]) {
		case "try":
			t++
		case "confirm":
			c++
		case "cancel":
			k++
		}
	}
	return fmt.Sprintf("%s:%d/%d/%d", row, t, c, k)
}

type c06Tok struct {
	branch  int64
	phase   byte
	fault   int
	cbFails bool
}

func (t c06Tok) String() string {
	s := fmt.Sprintf("%d%c", t.branch, t.phase)
	if t.fault > 0 {
		s += fmt.Sprintf("f%d", t.fault)
	}
	if t.cbFails {
		s += "x"
	}
	return s
}

func c06Oracle(toks []c06Tok, results []string) (bool, string, string) {
	// evaluates the property on the implementation's observations alone
	type st struct {
		row     string
		t, c, k int
	}
	prev := map[int64]st{}
	for i, tok := range toks {
		var res, row string
		var cur st
		parts := strings.SplitN(results[i], ":", 3)
		res, row = parts[0], parts[1]
		fmt.Sscanf(parts[2], "%d/%d/%d", &cur.t, &cur.c, &cur.k)
		cur.row = row
		p := prev[tok.branch]
		if p.row == "" {
			p.row = "-"
		}
		if res == "crash" {
			return false, "crash", fmt.Sprintf("delivery %d (%s) panicked", i, tok)
		}
		if res == "refused" && (cur != p) {
			return false, "not_atomic", fmt.Sprintf("delivery %d (%s) failed but left %v (was %v)", i, tok, cur, p)
		}
		// the callback runs (and its error counts) only where the fence moves the record away from `tried` or creates it
		cbRuns := (tok.phase == 'P' && p.row == "-") || (tok.phase != 'P' && p.row == "tried")
		if tok.cbFails && cbRuns && res == "ok" {
			return false, "callback_error_ignored", fmt.Sprintf("delivery %d (%s) reported ok although the callback failed", i, tok)
		}
		if cur.t > 1 {
			return false, "try_applied_twice", fmt.Sprintf("after delivery %d (%s): %v", i, tok, cur)
		}
		if cur.c > 0 && cur.k > 0 {
			return false, "confirm_and_cancel", fmt.Sprintf("after delivery %d (%s): %v", i, tok, cur)
		}
		if tok.phase == 'R' && p.row == "-" && res == "ok" {
			if cur.row != "suspended" {
				return false, "empty_rollback_not_suspended", fmt.Sprintf("delivery %d (%s): row %s", i, tok, cur.row)
			}
			if cur.k > p.k {
				return false, "empty_rollback_runs_cancel", fmt.Sprintf("delivery %d (%s): a rollback before try applied the cancel effect", i, tok)
			}
		}
		if tok.phase == 'R' && p.row == "-" && res != "ok" && tok.fault == 0 && !tok.cbFails {
			return false, "empty_rollback_not_suspended", fmt.Sprintf("delivery %d (%s) was refused and recorded nothing", i, tok)
		}
		if tok.phase == 'C' && (p.row == "suspended" || p.row == "rollbacked" || p.row == "-") && res == "ok" {
			return false, "commit_without_try_or_after_cancel", fmt.Sprintf("delivery %d (%s): commit accepted on a branch in state %s", i, tok, p.row)
		}
		if tok.phase == 'R' && p.row == "committed" && res == "ok" {
			return false, "rollback_after_confirm", fmt.Sprintf("delivery %d (%s): rollback accepted on a committed branch", i, tok)
		}
		if tok.phase == 'P' && p.row == "suspended" && res == "ok" {
			return false, "try_after_suspension", fmt.Sprintf("delivery %d (%s): try accepted after a suspension", i, tok)
		}
		if cur.c > 1 {
			return false, "duplicate_commit_reapplies_confirm", fmt.Sprintf("after delivery %d (%s): %v", i, tok, cur)
		}
		if cur.k > 1 {
			return false, "duplicate_rollback_reapplies_cancel", fmt.Sprintf("after delivery %d (%s): %v", i, tok, cur)
		}
		prev[tok.branch] = cur
	}
	return true, "", ""
}

// ---- the fence DRIVER path (sql.Open with fence.FenceDriver): BeginTx does the fence step, the caller's
// statements and Commit follow.  The record must move exactly as on the WithFence path, and a refused or failed
// delivery must leave no transaction open (the fence transaction holds the lock on the branch's record).
// The business effects are not compared: on this path BeginTx cannot tell its caller to skip them.
var fenceDriverSeq int

func runC06Driver(c *Ctx) {
	phases := []byte{'P', 'C', 'R'}
	var seqs [][]byte
	var rec func(prefix []byte, depth int)
	rec = func(prefix []byte, depth int) {
		if len(prefix) > 0 {
			seqs = append(seqs, append([]byte{}, prefix...))
		}
		if depth == 0 {
			return
		}
		for _, p := range phases {
			rec(append(prefix, p), depth-1)
		}
	}
	depth := 3
	if c.Tier == "thorough" {
		depth = 5
	}
	rec(nil, depth)
	for i, seq := range seqs {
		cid := fmt.Sprintf("fd-%d", i)
		if !c.Want(cid) {
			continue
		}
		e := memdb.New("fd")
		e.CreateFenceLogTable()
		// the application's business: one counter per phase, bumped inside the transaction the driver hands out
		e.CreateTable(memdb.TableDef{Name: "biz", Cols: []memdb.Column{{Name: "id", Type: memdb.TBigInt}, {Name: "tries", Type: memdb.TBigInt}, {Name: "confirms", Type: memdb.TBigInt}, {Name: "cancels", Type: memdb.TBigInt}}, PK: []string{"id"}})
		e.InsertRows("biz", memdb.Row{int64(1), int64(0), int64(0), int64(0)})
		// what the fence has on record so far (for the tag only): a delivery the fence answers "nothing to do"
		// — a second commit, a second rollback, a rollback before any try — cannot be told from a first one by an
		// application that goes through the driver (known finding)
		st, skipType := "", false
		secondCommitFails := false
		fenceDriverSeq++
		name := fmt.Sprintf("verif-fence-%d", fenceDriverSeq)
		sql.Register(name, &fence.FenceDriver{TargetDriver: e.Driver()})
		db, err := sql.Open(name, "root:pw@tcp(127.0.0.1:3306)/fd")
		if err != nil {
			panic(err)
		}
		var results, toks []string
		leak := ""
		// every second sequence delivers all its phases on ONE seata context (an application that repeats a
		// refused delivery with the context it has): nothing of a finished or refused delivery may stick to it
		var shared context.Context
		if i%2 == 1 {
			shared = tm.InitSeataContext(context.Background())
			c.Out.Count("fence-driver.shared-context")
		}
		crash := safeCall(func() {
			for k, ph := range seq {
				ctx := shared
				if ctx == nil {
					ctx = tm.InitSeataContext(context.Background())
				}
				tm.SetBusinessActionContext(ctx, &tm.BusinessActionContext{Xid: "10.0.0.1:8091:77", BranchId: 1, ActionName: "action"})
				switch ph {
				case 'P':
					tm.SetFencePhase(ctx, enum.FencePhasePrepare)
				case 'C':
					tm.SetFencePhase(ctx, enum.FencePhaseCommit)
				default:
					tm.SetFencePhase(ctx, enum.FencePhaseRollback)
				}
				res := "ok"
				// every fifth sequence: the BUSINESS transaction of the first delivery cannot be committed (the
				// first COMMIT the database sees is the business one): for the model a callback that fails
				failing := i%5 == 2 && k == 0 && ph == 'P' // (a first try always runs its business: the model's failing callback)
				switch {
				case ph == 'C' && st == "committed", ph == 'R' && (st == "" || st == "rollbacked" || st == "suspended"):
					skipType = true
				}
				if i%3 == 0 && k == 0 {
					// the application first uses the handle outside any TCC phase (a health check, a job that forgot its
					// seata context): refused or served, the pooled connection is left in no transaction
					if ptx, perr := db.BeginTx(context.Background(), nil); perr == nil {
						ptx.Rollback()
					}
					// ... and with a seata context that carries a fence phase but no branch (a TCC method called
					// outside a global transaction): refused, not a crash
					if pn := safeCall(func() {
						bare := tm.InitSeataContext(context.Background())
						tm.SetFencePhase(bare, enum.FencePhasePrepare)
						if ptx, perr := db.BeginTx(bare, nil); perr == nil {
							ptx.Rollback()
						}
					}); pn != "" && leak == "" {
						leak = "BeginTx with a seata context that has no branch: " + pn
					}
					if open := e.OpenTxns(); len(open) > 0 && leak == "" {
						leak = fmt.Sprintf("after a BeginTx without a seata context: transactions %v still open on the pooled connection", open)
					}
					c.Out.Count("fence-driver.plain-context-first")
				}
				// every fifth sequence, otherwise: the business STATEMENT of the first delivery fails and so does the
				// ROLLBACK of the business transaction that follows (a connection that broke): the delivery has failed,
				// nothing of it may stick to the context the application uses again
				brokenBusiness := i%5 == 4 && k == 0 && ph == 'P'
				tx, err := db.BeginTx(ctx, nil)
				if err == nil && brokenBusiness {
					e.AddFault(memdb.Fault{Kind: "update", Table: "biz", Nth: 1})
					e.AddFault(memdb.Fault{Kind: "rollback", Nth: 1})
					_, err = tx.ExecContext(ctx, "UPDATE biz SET tries = tries + 1 WHERE id = 1")
					tx.Rollback()
					e.ClearFaults()
					if err == nil {
						err = errors.New("the injected statement fault did not fire")
					}
					failing = true // (for the model: a callback that fails)
				} else if err == nil {
					col := map[byte]string{'P': "tries", 'C': "confirms", 'R': "cancels"}[ph]
					tx.ExecContext(ctx, "UPDATE biz SET "+col+" = "+col+" + 1 WHERE id = 1")
					if failing {
						e.AddFault(memdb.Fault{Kind: "commit", Nth: 1})
					}
					if i%5 == 3 && k == 0 && ph == 'P' {
						// every fifth sequence, otherwise: the SECOND commit of the first delivery fails - the driver
						// commits the business transaction on one connection and the fence transaction on another,
						// one after the other (known finding: the two do not commit together). For the model the
						// delivery fails and nothing of it stays.
						e.AddFault(memdb.Fault{Kind: "commit", Nth: 2})
						failing, secondCommitFails = true, true
					}
					err = tx.Commit()
					e.ClearFaults()
				}
				if errors.Is(err, fence.ErrPhaseAlreadyApplied) {
					// nothing to do for this delivery: the application returns the error, the resource manager answers
					// the coordinator "done" (see rm-* below)
					err = nil
				}
				if err != nil {
					res = "refused"
				}
				row := "-"
				for _, r := range e.Dump("tcc_fence_log") {
					row = map[string]string{"1": "tried", "2": "committed", "3": "rollbacked", "4": "suspended"}[fmt.Sprint(r[3])]
				}
				if row != "-" {
					st = row
				}
				counts := "?"
				for _, r := range e.Dump("biz") {
					counts = fmt.Sprintf("%v/%v/%v", r[1], r[2], r[3])
				}
				results = append(results, res+":"+row+":"+counts)
				if failing && tx != nil {
					toks = append(toks, fmt.Sprintf("1%cx", ph))
				} else {
					toks = append(toks, fmt.Sprintf("1%c", ph))
				}
				if open := e.OpenTxns(); (len(open) > 0 || db.Stats().InUse > 0) && leak == "" {
					leak = fmt.Sprintf("after delivery %d (%c, %s): transactions %v still open, %d pooled connections in use", k, ph, res, open, db.Stats().InUse)
				}
			}
		})
		db.Close()
		c.Out.Case(cid, "C06", "seq "+strings.Join(toks, " "), strings.Join(results, " "))
		class := ""
		if crash != "" {
			class = "crash"
		} else if leak != "" {
			class = "fence_driver_left_a_transaction_open"
		}
		c.Out.Oracle(cid, class == "", class, leak+crash)
		tag := fmt.Sprintf("nontrivial=%d", b2i(len(seq) > 1))
		if skipType {
			c.Out.Count("fence-driver.with-a-delivery-to-skip")
		}
		if secondCommitFails {
			tag += " known=fence_driver_commits_on_two_connections"
			c.Out.Count("fence-driver.second-commit-fails")
		}
		c.Out.Tag(cid, tag)
		c.Out.Count("fence-driver")
	}
}

func runC06(c *Ctx) {
	defer runC06Driver(c)
	defer runC06UnderRM(c)
	rng := NewRng(c.Seed)
	phases := []byte{'P', 'C', 'R'}
	var seqs [][]c06Tok
	maxLen := 5
	faultLen := 3
	if c.Tier == "thorough" {
		maxLen = 7
		faultLen = 4
	}
	// exhaustive: every sequence over {prepare, commit, rollback} up to maxLen for one branch
	var rec func(prefix []c06Tok, depth int)
	rec = func(prefix []c06Tok, depth int) {
		if len(prefix) > 0 {
			seqs = append(seqs, append([]c06Tok{}, prefix...))
		}
		if depth == 0 {
			return
		}
		for _, p := range phases {
			rec(append(prefix, c06Tok{branch: 1, phase: p}), depth-1)
		}
	}
	rec(nil, maxLen)
	nExh := len(seqs)
	// a failure injected at each statement index of each step (and a failing callback), then the rest clean
	var base [][]c06Tok
	var rec2 func(prefix []c06Tok, depth int)
	rec2 = func(prefix []c06Tok, depth int) {
		if len(prefix) > 0 {
			base = append(base, append([]c06Tok{}, prefix...))
		}
		if depth == 0 {
			return
		}
		for _, p := range phases {
			rec2(append(prefix, c06Tok{branch: 1, phase: p}), depth-1)
		}
	}
	rec2(nil, faultLen)
	for _, b := range base {
		for i := range b {
			for k := 1; k <= 6; k++ {
				s := append([]c06Tok{}, b...)
				s[i].fault = k
				// retry the failed step cleanly afterwards
				s = append(s[:i+1], append([]c06Tok{{branch: 1, phase: b[i].phase}}, s[i+1:]...)...)
				seqs = append(seqs, s)
			}
			s := append([]c06Tok{}, b...)
			s[i].cbFails = true
			seqs = append(seqs, s)
		}
	}
	// several branches sharing the fence table
	for i := 0; i < c.Budget(300, 5000); i++ {
		r := rng.Fork()
		n := 2 + r.Intn(8)
		var s []c06Tok
		for k := 0; k < n; k++ {
			t := c06Tok{branch: int64(1 + r.Intn(3)), phase: phases[r.Intn(3)]}
			if r.Chance(10) {
				t.fault = 1 + r.Intn(6)
			}
			if r.Chance(5) {
				t.cbFails = true
			}
			s = append(s, t)
		}
		seqs = append(seqs, s)
	}
	for i, s := range seqs {
		cid := fmt.Sprintf("seq-%d", i)
		if !c.Want(cid) {
			continue
		}
		w := newFenceWorld()
		var results []string
		for _, t := range s {
			res, st := w.deliver(t.branch, t.phase, t.fault, t.cbFails)
			results = append(results, res+":"+st)
		}
		w.close()
		toks := make([]string, len(s))
		for k, t := range s {
			toks[k] = t.String()
		}
		c.Out.Case(cid, "C06", "seq "+strings.Join(toks, " "), strings.Join(results, " "))
		ok, class, detail := c06Oracle(s, results)
		c.Out.Oracle(cid, ok, class, detail)
		c.Out.Tag(cid, fmt.Sprintf("nontrivial=%d", b2i(len(s) > 1)))
		switch {
		case i < nExh:
			c.Out.Count("exhaustive.len" + fmt.Sprint(len(s)))
		default:
			c.Out.Count("faults-or-branches")
		}
	}
	// directed interleavings: delivery a is held up at its k-th statement (a slow server) and delivery b runs
	// from start to end in the gap; the outcome must be one of the serial orders, or one delivery alone when
	// the other lost a lock or hit a duplicate key and was refused
	nDir := 0
	for _, prefix := range [][]byte{{}, {'P'}, {'R'}, {'P', 'C'}, {'P', 'R'}} {
		for _, pa := range phases {
			for _, pb := range phases {
				for k := 2; k <= 4; k++ {
					nDir++
					cid := fmt.Sprintf("race-d%d", nDir)
					if !c.Want(cid) || (c.Tier != "thorough" && nDir%3 != 0 && !(len(prefix) == 0 && pa != pb)) {
						continue
					}
					a, b := c06Tok{branch: 1, phase: pa}, c06Tok{branch: 1, phase: pb}
					w := newFenceWorld()
					for _, ph := range prefix {
						w.deliver(1, ph, 0, false)
					}
					w.eng.AddFault(memdb.Fault{Nth: k, Delay: 40 * time.Millisecond})
					var wg sync.WaitGroup
					var ra, rb string
					wg.Add(2)
					go func() { defer wg.Done(); ra, _ = w.deliverKeepFaults(1, a.phase) }()
					go func() { defer wg.Done(); time.Sleep(12 * time.Millisecond); rb, _ = w.deliverKeepFaults(1, b.phase) }()
					wg.Wait()
					w.eng.ClearFaults()
					final := w.state(1) + " " + ra + " " + rb
					w.close()
					cands := map[string]bool{}
					for _, order := range [][]int{{0, 1}, {1, 0}, {0}, {1}, {}} {
						w2 := newFenceWorld()
						for _, ph := range prefix {
							w2.deliver(1, ph, 0, false)
						}
						ans := []string{"refused", "refused"}
						for _, x := range order {
							ans[x], _ = w2.deliver(1, []c06Tok{a, b}[x].phase, 0, false)
						}
						cands[w2.state(1)+" "+ans[0]+" "+ans[1]] = true
						w2.close()
					}
					// the model (TCC/FenceRace.lean) runs exactly this interleaving and lists every allowed outcome
					pfx := "-"
					if len(prefix) > 0 {
						pfx = string(prefix)
					}
					c.Out.Case(cid, "C06", fmt.Sprintf("race %s %c %c %d", pfx, pa, pb, k), final)
					ok := cands[final] && ra != "crash" && rb != "crash"
					c.Out.Oracle(cid, ok, "race_not_serializable", fmt.Sprintf("prefix %q: %c held up at its statement %d while %c ran: ended in [%s], not a serial outcome %v", prefix, pa, k, pb, final, cands))
					c.Out.Tag(cid, "nontrivial=1")
					c.Out.Count("race-directed")
				}
			}
		}
	}
	// two deliveries for the same branch racing (row locks fail fast): the outcome must be one of the
	// serial orders, or one delivery alone when the other lost the lock
	nRace := c.Budget(150, 3000)
	for i := 0; i < nRace; i++ {
		r := rng.Fork()
		cid := fmt.Sprintf("race-%d", i)
		if !c.Want(cid) {
			continue
		}
		var prefix []c06Tok
		for k := 0; k < r.Intn(3); k++ {
			prefix = append(prefix, c06Tok{branch: 1, phase: phases[r.Intn(3)]})
		}
		a := c06Tok{branch: 1, phase: phases[r.Intn(3)]}
		b := c06Tok{branch: 1, phase: phases[r.Intn(3)]}
		w := newFenceWorld()
		for _, t := range prefix {
			w.deliver(t.branch, t.phase, 0, false)
		}
		var wg sync.WaitGroup
		var ra, rb string
		wg.Add(2)
		go func() { defer wg.Done(); ra, _ = w.deliver(1, a.phase, 0, false) }()
		go func() { defer wg.Done(); rb, _ = w.deliver(1, b.phase, 0, false) }()
		wg.Wait()
		final := w.state(1)
		w.close()
		// candidates computed by replaying serial orders on fresh worlds with the real code
		// a candidate is the final state together with the answers the two deliveries got; a delivery that does
		// not take part in a serial order lost a lock or hit a duplicate key and must have been refused
		cands := map[string]bool{}
		for _, order := range [][]int{{0, 1}, {1, 0}, {0}, {1}, {}} {
			w2 := newFenceWorld()
			for _, t := range prefix {
				w2.deliver(t.branch, t.phase, 0, false)
			}
			ans := []string{"refused", "refused"}
			for _, k := range order {
				t := []c06Tok{a, b}[k]
				ans[k], _ = w2.deliver(t.branch, t.phase, 0, false)
			}
			cands[w2.state(1)+" "+ans[0]+" "+ans[1]] = true
			w2.close()
		}
		final += " " + ra + " " + rb
		ptoks := make([]string, len(prefix))
		for k, t := range prefix {
			ptoks[k] = t.String()
		}
		// compared with the model through the same serial candidates: emit the serial orders as `seq` ops
		serial := append(append([]c06Tok{}, prefix...), a, b)
		stoks := make([]string, len(serial))
		for k, t := range serial {
			stoks[k] = t.String()
		}
		w3 := newFenceWorld()
		var results []string
		for _, t := range serial {
			res, st := w3.deliver(t.branch, t.phase, 0, false)
			results = append(results, res+":"+st)
		}
		w3.close()
		c.Out.Case(cid, "C06", "seq "+strings.Join(stoks, " "), strings.Join(results, " "))
		okRace := cands[final] && ra != "crash" && rb != "crash"
		ok, class, detail := c06Oracle(serial, results)
		if !okRace {
			ok, class, detail = false, "race_not_serializable", fmt.Sprintf("prefix %v racing %s and %s ended in %s, not a serial outcome %v", ptoks, a, b, final, cands)
		}
		c.Out.Oracle(cid, ok, class, detail)
		c.Out.Tag(cid, "nontrivial=1")
		c.Out.Count("race")
	}
}
