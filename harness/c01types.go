package main

import (
	"context"
	"errors"
	"fmt"
	"time"

	"seata.apache.org/seata-go/pkg/protocol/branch"

	"verifharness/memdb"
)

// runC01Types: one column of each MySQL type the AT scanner knows (DATETIME, DECIMAL, BLOB, BIT, ...), written by
// UPDATE / DELETE / INSERT inside a global transaction under both serializers, then a global rollback: the table
// must be restored.  The model's values are integers, texts and NULL; these cases are decided by the restore
// oracle alone (cases c01-t*).
func runC01Types(c *Ctx, w *ATWorld) {
	type col struct {
		name string
		def  memdb.Column
		v0   interface{} // the value the rows start with
		v1   string      // SQL literal of the new value
	}
	cols := []col{
		{"datetime", memdb.Column{Type: memdb.TDateTime, Nullable: true}, time.Date(2024, 1, 2, 3, 4, 5, 0, time.UTC), "'2025-06-07 08:09:10'"},
		{"datetime6", memdb.Column{Type: memdb.TDateTime, Length: 6, Nullable: true}, time.Date(2024, 1, 2, 3, 4, 5, 123456000, time.UTC), "'2025-06-07 08:09:10.654321'"},
		{"timestamp", memdb.Column{Type: memdb.TTimestamp, Nullable: true}, time.Date(2024, 1, 2, 3, 4, 5, 0, time.UTC), "'2025-06-07 08:09:10'"},
		{"date", memdb.Column{Type: memdb.TDate, Nullable: true}, time.Date(2024, 1, 2, 0, 0, 0, 0, time.UTC), "'2025-06-07'"},
		{"decimal", memdb.Column{Type: memdb.TDecimal, Length: 10, Scale: 2, Nullable: true}, "12.34", "56.78"},
		{"decimal-18-digits", memdb.Column{Type: memdb.TDecimal, Length: 20, Scale: 2, Nullable: true}, "1234567890123456.78", "9876543210987654.32"},
		{"double", memdb.Column{Type: memdb.TDouble, Nullable: true}, 1.5, "2.25"},
		{"float", memdb.Column{Type: memdb.TFloat, Nullable: true}, float32(1.5), "2.25"},
		{"tinyint", memdb.Column{Type: memdb.TTinyInt, Nullable: true}, int64(1), "0"},
		{"smallint", memdb.Column{Type: memdb.TSmallInt, Nullable: true}, int64(300), "-300"},
		{"text", memdb.Column{Type: memdb.TText, Nullable: true}, "hello", "'world'"},
		{"longtext", memdb.Column{Type: memdb.TLongText, Nullable: true}, "hello", "'world'"},
		{"char", memdb.Column{Type: memdb.TChar, Length: 4, Nullable: true}, "ab", "'cd'"},
		{"varchar-looks-like-base64", memdb.Column{Type: memdb.TVarchar, Length: 16, Nullable: true}, "test", "'abcd'"},
		{"varchar-is-base64-of-text", memdb.Column{Type: memdb.TVarchar, Length: 16, Nullable: true}, "dGVzdA==", "'YWJj'"},
		// base64 characters and a line break (Go's base64 reader skips CR and LF), length not a multiple of four
		{"varchar-base64-chars-and-line-break", memdb.Column{Type: memdb.TVarchar, Length: 16, Nullable: true}, "John\n", "'test\r\n'"},
		{"text-base64-chars-and-line-break", memdb.Column{Type: memdb.TText, Nullable: true}, "abcd\nefg", "'ab\ncd\n'"},
		{"blob", memdb.Column{Type: memdb.TBlob, Nullable: true}, []byte{1, 2, 255}, "x'0a0b'"},
		{"longblob", memdb.Column{Type: memdb.TLongBlob, Nullable: true}, []byte{1, 2, 255}, "x'0a0b'"},
		{"varbinary", memdb.Column{Type: memdb.TVarBinary, Length: 8, Nullable: true}, []byte{1, 2, 255}, "x'0a0b'"},
		{"bit", memdb.Column{Type: memdb.TBit, Length: 1, Nullable: true}, []byte{1}, "b'0'"},
		{"json", memdb.Column{Type: memdb.TJSON, Nullable: true}, `{"a": 1}`, `'{"b": 2}'`},
		{"bigint-beyond-2^53", memdb.Column{Type: memdb.TBigInt, Nullable: true}, int64(9007199254740993), "9007199254740995"},
		{"null", memdb.Column{Type: memdb.TVarchar, Length: 8, Nullable: true}, nil, "'x'"},
		// UNSIGNED columns holding values above the signed range of their width
		{"tinyint-unsigned", memdb.Column{Type: memdb.TTinyInt, Unsigned: true, Nullable: true}, int64(200), "250"},
		{"smallint-unsigned", memdb.Column{Type: memdb.TSmallInt, Unsigned: true, Nullable: true}, int64(40000), "65535"},
		{"int-unsigned", memdb.Column{Type: memdb.TInt, Unsigned: true, Nullable: true}, int64(3000000000), "4294967295"},
		{"tinyint-unsigned-not-null", memdb.Column{Type: memdb.TTinyInt, Unsigned: true}, int64(200), "250"},
		{"int-unsigned-not-null", memdb.Column{Type: memdb.TInt, Unsigned: true}, int64(3000000000), "4294967295"},
	}
	n := 0
	for _, onlyCare := range []bool{true, false} {
		for _, ser := range []string{"json", "protobuf"} {
			for _, cl := range cols {
				for qi := 0; qi < 5; qi++ {
					n++
					cid := fmt.Sprintf("c01-t%d", n)
					if !c.Want(cid) {
						continue
					}
					w.SetUndoConfig(ser, []string{"None", "Gzip"}[n%2], true, onlyCare)
					// every third case of a temporal column: the connection's location (DSN parameter loc) is neither UTC
					// nor the process's own — a service in a container without TZ whose database keeps local time
					if cl.def.Type == memdb.TDateTime || cl.def.Type == memdb.TTimestamp || cl.def.Type == memdb.TDate {
						if n%3 == 0 {
							memdb.SetLocation(time.FixedZone("CST", 8*3600))
						}
					}
					t := w.NewTableName("ty")
					d := cl.def
					d.Name = "v"
					if err := w.Eng.CreateTable(memdb.TableDef{Name: t, Cols: []memdb.Column{{Name: "id", Type: memdb.TBigInt}, d}, PK: []string{"id"}}); err != nil {
						panic(err)
					}
					// the second row holds another value of the type (a multi-row image must keep the rows apart: the
					// driver hands out byte values as slices of a buffer the next row overwrites)
					var second interface{} = cl.v0
					switch x := cl.v0.(type) {
					case []byte:
						second = append([]byte{}, x...)
						second.([]byte)[len(x)-1] ^= 1
					case string:
						if cl.def.Type != memdb.TDecimal && cl.def.Type != memdb.TJSON && len(x) > 0 {
							second = x[:len(x)-1] + "z"
						}
					case int64:
						second = x - 1
					}
					if err := w.Eng.InsertRows(t, memdb.Row{int64(1), cl.v0}, memdb.Row{int64(2), second}); err != nil {
						panic(err)
					}
					q := []string{"UPDATE " + t + " SET v = " + cl.v1 + " WHERE id = 1", "DELETE FROM " + t + " WHERE id = 2", "INSERT INTO " + t + " (id, v) VALUES (3, " + cl.v1 + ")",
						"UPDATE " + t + " SET v = " + cl.v1 + " WHERE id <= 2", "DELETE FROM " + t + " WHERE id <= 2"}[qi]
					before := w.DumpTable(t)
					w.coord.ResetLog()
					stmts0 := w.Eng.OpenStmts()
					var execErr error
					var xid string
					crash := safeCall(func() {
						xid, _ = InGlobalTx(cid, func(ctx context.Context) error {
							_, execErr = w.DB.ExecContext(ctx, q)
							return errors.New("roll the global transaction back")
						})
					})
					mid := w.DumpTable(t)
					allOK := true
					brs := w.coord.RegisteredBranches(xid)
					for k := len(brs) - 1; k >= 0; k-- {
						st, ok, _ := w.coord.RollbackBranch(w.coord.LastSession(), brs[k], 5*time.Second)
						if !ok || st != branch.BranchStatusPhasetwoRollbacked {
							allOK = false
						}
					}
					final := w.DumpTable(t)
					class := ""
					switch {
					case crash != "":
						class = "crash"
					case execErr != nil:
						class = "statement_refused_for_its_column_type"
					case mid == before:
						class = "statement_had_no_effect"
					case !allOK:
						class = "rollback_reported_failed"
					case final != before:
						class = "rollbacked_but_not_restored"
					case w.Eng.OpenStmts() > stmts0:
						class = "prepared_statement_left_open"
					}
					memdb.SetLocation(nil)
					c.Out.Case(cid, "C01", "skip", "skip")
					c.Out.Oracle(cid, class == "", class, fmt.Sprintf("%s column, %s, only-care=%v: %s | err=%v before=%s mid=%s final=%s crash=%s", cl.name, ser, onlyCare, q, execErr, before, mid, final, crash))
					c.Out.Tag(cid, "nontrivial=1")
					c.Out.Count("column-type." + cl.name)
					w.Eng.Exec("DELETE FROM undo_log")
					w.Eng.DropTable(t)
				}
			}
		}
	}
}
