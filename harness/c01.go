package main

import (
	"context"
	"errors"
	"fmt"
	"strings"
	"time"
	"verifharness/memdb"

	"seata.apache.org/seata-go/pkg/protocol/branch"

	"seata.apache.org/seata-go/pkg/tm"
)

func init() { props["C01"] = runC01 }

func tmXID(ctx context.Context) string { return tm.GetXID(ctx) }

func genATCase(r *Rng, w *ATWorld, id string, o ATGenOpts) *ATCase {
	if o.AutoInc {
		// the auto-increment counter is predicted by driver glue that assumes every statement runs:
		// no statement in these cases is meant to fail
		o.AllowFindings, o.PKUpdates, o.ContinueOnError = false, false, false
	}
	c := &ATCase{ID: id}
	c.Ser = []string{"json", "json", "protobuf"}[r.Intn(3)]
	c.Comp = []string{"None", "None", "Gzip", "Zip", "Lz4", "Zstd", "Deflate", "Bzip2", "gzip"}[r.Intn(9)]
	c.Validate = r.Chance(60)
	c.OnlyCare = r.Chance(40)
	c.Schema = genSchema(r, w.NewTableName("t"), o)
	c.Rows = genRows(r, c.Schema, r.Intn(6))
	taken := map[string]bool{}
	for _, row := range c.Rows {
		k := ""
		for _, p := range c.Schema.PK {
			k += row[p].Cell() + "/"
		}
		taken[k] = true
	}
	o.Existing = c.Rows
	nLocal := 1 + r.Intn(3)
	for i := 0; i < nLocal; i++ {
		l := ATLocalTx{}
		n := 1
		if r.Chance(35) {
			l.Explicit = true
			n = 1 + r.Intn(3)
		}
		for k := 0; k < n; k++ {
			st := genStmt(r, c.Schema, taken, o)
			l.Stmts = append(l.Stmts, st)
			c.Classes = append(c.Classes, st.Classes...)
		}
		// a statement the database fails (injected): in a lenient transaction the rest goes on, otherwise
		// the local transaction is rolled back
		if o.ContinueOnError && !o.AutoInc && r.Chance(25) {
			l.Stmts[r.Intn(len(l.Stmts))].ForceFail = true
			if l.Explicit && len(l.Stmts) > 1 && r.Chance(70) {
				l.ContinueOnError = true
			}
		}
		// an explicit transaction whose application ignores a failed statement (an INSERT of an existing
		// key) and commits what went through
		if l.Explicit && o.ContinueOnError && !o.AutoInc && len(c.Rows) > 0 && r.Chance(40) {
			l.ContinueOnError = true
			src := c.Rows[r.Intn(len(c.Rows))]
			var es []*ATExpr
			for ci, col := range c.Schema.Cols {
				v := genVal(r, col)
				if c.Schema.isPK(ci) {
					v = src[ci]
				}
				es = append(es, &ATExpr{K: 'l', Val: v})
			}
			at := r.Intn(len(l.Stmts) + 1)
			bad := &ATStmt{Kind: 'X', Rows: [][]*ATExpr{es}}
			l.Stmts = append(l.Stmts[:at], append([]*ATStmt{bad}, l.Stmts[at:]...)...)
		}
		c.Locals = append(c.Locals, l)
	}
	spellStatements(c)
	return c
}

func runC01(c *Ctx) {
	w := GetATWorld()
	defer runC01Multi(c, w)
	defer runC01Uniq(c, w)
	defer runC01Types(c, w)
	defer runC01MidResult(c, w)
	defer runC01MixedKeys(c, w)
	defer runC01UniqueCollisions(c, w)
	defer runC01BinaryKeys(c, w)
	rng := NewRng(c.Seed)
	n := c.Budget(300, 30000)
	// branches whose images span the IN-list batch size of the image and undo queries (1000 keys)
	bigs := []int{1000, 1001}
	if c.Tier == "thorough" {
		bigs = []int{999, 1000, 1001, 2000, 2001}
	}
	for i := 0; i < n+len(bigs); i++ {
		r := rng.Fork()
		cid := fmt.Sprintf("c01-%d", i)
		o := ATGenOpts{AllowFindings: r.Chance(25), NullableVals: r.Chance(50), BigInts: r.Chance(15), ContinueOnError: r.Chance(40), Upserts: r.Chance(35), OrderLimit: r.Chance(30), AutoInc: r.Chance(15)}
		cs := genATCase(r, w, cid, o)
		if i >= n {
			big := bigs[i-n]
			cs.Classes = nil
			cs.Validate = true // the current-row query of the validation is the one that is batched on rollback
			cs.Schema = &ATSchema{Table: w.NewTableName("big"), Cols: []ATCol{{Name: "id", Typ: 'i'}, {Name: "c1", Typ: 'i'}}, PK: []int{0}}
			cs.Rows = nil
			for k := 0; k < big; k++ {
				cs.Rows = append(cs.Rows, []ATVal{{K: 'i', I: int64(k + 1)}, {K: 'i', I: int64(k % 7)}})
			}
			cs.Locals = []ATLocalTx{
				{Stmts: []*ATStmt{{Kind: 'U', Sets: []ATSet{{Col: 1, Plus: 1, E: &ATExpr{K: 'l', Val: ATVal{K: 'i', I: 1}}}}, Where: &ATCond{Op: "T"}}}},
				{Stmts: []*ATStmt{{Kind: 'D', Where: &ATCond{Op: "T"}}}},
			}
		}
		if !c.Want(cid) {
			continue
		}
		w := worldFor(w, cs, i)
		run := &ATRun{w: w, c: cs}
		run.PhaseOne(nil)
		run.Snap()
		allOK := run.RollbackAll()
		final := w.DumpTable(cs.Schema.Table)
		op := strings.Join(append(cs.headerToks(), run.Toks...), " ")
		c.Out.Case(cid, "C01", op, strings.Join(run.Obs, " "))
		// oracle: every table is back to its initial contents, no undo log left, every branch answered rollbacked
		ok := run.crash == "" && allOK && final == run.Initial && strings.HasSuffix(run.Obs[len(run.Obs)-1], "undo=-")
		class := "not_restored"
		if run.crash != "" {
			class = "crash"
		} else if !allOK && final == run.Initial {
			class = "rollback_reported_failed"
		} else if allOK && final != run.Initial {
			class = "rollbacked_but_not_restored"
		}
		c.Out.Oracle(cid, ok, class, fmt.Sprintf("cfg %s/%s v=%v o=%v initial=%s final=%s obs=%s crash=%s", cs.Ser, cs.Comp, cs.Validate, cs.OnlyCare, run.Initial, final, strings.Join(run.Obs, " "), run.crash))
		tag := fmt.Sprintf("nontrivial=%d", b2i(len(run.Branches) > 0 && run.Initial != strings.TrimPrefix(strings.SplitN(run.Obs[len(run.Obs)-len(run.Branches)-2], " ", 2)[0], "t=")))
		if len(cs.Classes) > 0 {
			tag += " known=" + strings.Join(uniqStrings(cs.Classes), ",")
		}
		c.Out.Tag(cid, tag)
		c.Out.Count("ser." + cs.Ser)
		c.Out.Count("compress." + cs.Comp)
		c.Out.Count(fmt.Sprintf("branches.%d", len(run.Branches)))
		c.Out.Count("datasource." + w.DBName + w.Tag)
		w.Eng.Exec("DELETE FROM undo_log")
		w.Eng.DropTable(cs.Schema.Table) // thousands of tables make every catalogue query (and the meta refresher) quadratic
		for _, cl := range cs.Classes {
			c.Out.Count("class." + cl)
		}
	}
}

// runC01Multi: several literal-only statements of one kind in ONE Exec (multiStatements=true), then a global
// rollback.  The undo log of such an Exec merges the statements' images, which the model does not describe:
// these cases are decided by the restore oracle alone.
func runC01Multi(c *Ctx, w *ATWorld) {
	rng := NewRng(c.Seed + 77)
	n := c.Budget(40, 4000)
	for i := 0; i < n; i++ {
		r := rng.Fork()
		cid := fmt.Sprintf("c01-m%d", i)
		o := ATGenOpts{NullableVals: r.Chance(40), BigInts: r.Chance(10)}
		cs := genATCase(r, w, cid, o)
		sc := cs.Schema
		if len(cs.Rows) < 3 {
			cs.Rows = genRows(r, sc, 3+r.Intn(4))
		}
		if sc.Cols[sc.PK[0]].Typ != 'i' || !c.Want(cid) {
			continue
		}
		var nonPK []int
		for ci := range sc.Cols {
			if !sc.isPK(ci) {
				nonPK = append(nonPK, ci)
			}
		}
		keyCond := func(row []ATVal) *ATCond {
			cond := &ATCond{Op: "cmp:e", E: []*ATExpr{{K: 'c', Col: sc.PK[0]}, {K: 'l', Val: row[sc.PK[0]]}}}
			for k := 1; k < len(sc.PK); k++ {
				cond = &ATCond{Op: "A", A: cond, B: &ATCond{Op: "cmp:e", E: []*ATExpr{{K: 'c', Col: sc.PK[k]}, {K: 'l', Val: row[sc.PK[k]]}}}}
			}
			return cond
		}
		kind := byte('U')
		if r.Chance(35) {
			kind = 'D'
		}
		var parts []string
		keyAssigned := false
		for k := 0; k < 2+r.Intn(2); k++ {
			row := cs.Rows[r.Intn(len(cs.Rows))] // the same row may be hit by several statements
			st := &ATStmt{Kind: kind, Where: keyCond(row)}
			if kind == 'U' {
				col := nonPK[r.Intn(len(nonPK))]
				if sc.Cols[col].Typ == 'i' && r.Bool() {
					st.Sets = []ATSet{{Col: col, Plus: col, E: &ATExpr{K: 'l', Val: ATVal{K: 'i', I: int64(1 + r.Intn(5))}}}}
				} else {
					st.Sets = []ATSet{{Col: col, Plus: -1, E: &ATExpr{K: 'l', Val: genVal(r, sc.Cols[col])}}}
				}
				if r.Chance(20) {
					st.Where = &ATCond{Op: "cmp:e", E: []*ATExpr{{K: 'c', Col: sc.PK[0]}, {K: 'l', Val: ATVal{K: 'i', I: 777000 + int64(k)}}}} // selects no row
				}
				if i%6 == 5 && k == 1 {
					// one statement of the batch moves a row to another key: refused like the single statement
					// (the executor cannot undo it), or undone like any other — never half
					keyAssigned = true
					st.Sets = []ATSet{{Col: sc.PK[0], Plus: sc.PK[0], E: &ATExpr{K: 'l', Val: ATVal{K: 'i', I: 100000}}}}
				}
			}
			st.Spell = []int{0, 0, 1, 3}[r.Intn(4)]
			st.Alias = (i+k)%3 == 0 // (some statements of the batch name the table with an alias, others do not)
			sc.DBName = w.DBName
			q, _, _ := st.Render(sc)
			parts = append(parts, q)
		}
		w.SetUndoConfig(cs.Ser, cs.Comp, cs.Validate, cs.OnlyCare)
		sc.Create(w.Eng)
		for _, row := range cs.Rows {
			w.Eng.InsertRows(sc.Table, toMemRow(row))
		}
		// every third batch also writes to a SECOND table (the same kind of statement): the images of the two
		// tables must not be mixed up
		second := ""
		if i%3 == 1 {
			second = w.NewTableName("m2")
			w.Eng.CreateTable(memdb.TableDef{Name: second, Cols: []memdb.Column{{Name: "k", Type: memdb.TBigInt}, {Name: "w", Type: memdb.TBigInt, Nullable: true}}, PK: []string{"k"}})
			w.Eng.InsertRows(second, memdb.Row{int64(901), int64(1)}, memdb.Row{int64(902), int64(2)}, memdb.Row{int64(903), int64(3)})
			extra := "UPDATE " + second + " SET w = w + 10 WHERE k = 902"
			if kind == 'D' {
				extra = "DELETE FROM " + second + " WHERE k = 902"
			}
			at := r.Intn(len(parts) + 1)
			parts = append(parts[:at], append([]string{extra}, parts[at:]...)...)
		}
		initial := w.DumpTable(sc.Table)
		if second != "" {
			initial += " | " + w.DumpTable(second)
		}
		w.coord.ResetLog()
		var execErr error
		var xid string
		crash := safeCall(func() {
			xid, _ = InGlobalTx(cid, func(ctx context.Context) error {
				_, execErr = w.DB.ExecContext(ctx, strings.Join(parts, "; "))
				return errors.New("roll the global transaction back")
			})
		})
		dump := func() string {
			if second != "" {
				return w.DumpTable(sc.Table) + " | " + w.DumpTable(second)
			}
			return w.DumpTable(sc.Table)
		}
		mid := dump()
		allOK := true
		brs := w.coord.RegisteredBranches(xid)
		for k := len(brs) - 1; k >= 0; k-- {
			st, ok, _ := w.coord.RollbackBranch(w.coord.LastSession(), brs[k], 5*time.Second)
			if !ok || st != branch.BranchStatusPhasetwoRollbacked {
				allOK = false
			}
		}
		final := dump()
		if second != "" {
			w.Eng.DropTable(second)
		}
		c.Out.Case(cid, "C01", "skip", "skip")
		class := ""
		switch {
		case crash != "":
			class = "crash"
		case execErr != nil && keyAssigned && mid == initial:
			// refused, and nothing done: what the single statement gets
		case execErr != nil:
			class = "multi_statement_exec_refused"
		case allOK && final != initial:
			class = "rollbacked_but_not_restored"
		case !allOK:
			class = "rollback_reported_failed"
		case normalUndoRows(w) > 0:
			class = "undo_log_left"
		}
		c.Out.Oracle(cid, class == "", class, fmt.Sprintf("%s | err=%v initial=%s mid=%s final=%s crash=%s", strings.Join(parts, "; "), execErr, initial, mid, final, crash))
		c.Out.Tag(cid, fmt.Sprintf("nontrivial=%d", b2i(mid != initial)))
		c.Out.Count(fmt.Sprintf("multi.%c", kind))
		w.Eng.Exec("DELETE FROM undo_log")
		w.Eng.DropTable(sc.Table)
	}
}

func uniqStrings(xs []string) []string {
	seen := map[string]bool{}
	var out []string
	for _, x := range xs {
		if !seen[x] {
			seen[x] = true
			out = append(out, x)
		}
	}
	return out
}

// normalUndoRows counts the undo_log rows in the normal state (log_status 0).  A row in the "global finished"
// state is the marker a rollback leaves when it found no undo log for the branch (an Exec whose statements
// selected no row registers a branch with empty lock keys and writes no undo log): not a left-over.
func normalUndoRows(w *ATWorld) int {
	n := 0
	for _, r := range w.UndoLogRows() {
		if strings.HasSuffix(r, "/0") {
			n++
		}
	}
	return n
}
