package main

import (
	"context"
	"database/sql"
	"fmt"
	"regexp"
	"strings"
	"sync"
	"time"

	sql2 "seata.apache.org/seata-go/pkg/datasource/sql"
	"seata.apache.org/seata-go/pkg/datasource/sql/datasource"
	"seata.apache.org/seata-go/pkg/protocol/branch"
	"seata.apache.org/seata-go/pkg/protocol/message"

	"verifharness/memdb"
)

func init() { props["C17"] = runC17 }

func runC17(c *Ctx) {
	runC17Ids(c)
	runC17Two(c)
	runC17Protocol(c)
	runC17Followup(c)
	runC17Cancelled(c)
	runC17Keeper(c)
}

// ---- (c) two branches prepared over one pooled connection, then phase two for each: every phase-two
// command must address the branch it was sent for

func runC17Two(c *Ctx) {
	w := GetATWorld()
	xa := w.OpenXA()
	xa.SetMaxOpenConns(1)
	rng := NewRng(c.Seed + 11)
	n := c.Budget(16, 200)
	for i := 0; i < n; i++ {
		r := rng.Fork()
		cid := fmt.Sprintf("c17-t%d", i)
		d := [2]bool{r.Bool(), r.Bool()}
		order := []string{"12", "21"}[r.Intn(2)]
		// every fourth case: phase two of the first branch arrives WHILE the second branch (on the same pooled
		// connection) is between XA START and XA END — its business statement is held up by a slow server
		// (every eighth case: the same on ONE pinned connection, which the pool cannot keep out of the way of phase two)
		during := i%4 == 3 || i%8 == 6
		if !c.Want(cid) {
			continue
		}
		// every fourth case: the pool keeps no idle connection, database/sql closes each connection as soon as
		// the statement is over — the prepared branch's connection must survive until phase two all the same
		if i%4 == 1 {
			xa.SetMaxIdleConns(0)
		} else {
			xa.SetMaxIdleConns(2)
		}
		sessions0 := w.Eng.SessionCount()
		table := w.NewTableName("xa2")
		w.Eng.CreateTable(memdb.TableDef{Name: table, Cols: []memdb.Column{{Name: "id", Type: memdb.TBigInt}, {Name: "n", Type: memdb.TBigInt, Nullable: true}}, PK: []string{"id"}})
		w.Eng.InsertRows(table, memdb.Row{int64(1), int64(0)}, memdb.Row{int64(2), int64(0)})
		w.coord.ResetLog()
		w.Eng.ResetJournal()
		var errs [2]error
		var xid string
		crash := safeCall(func() {
			xid, _ = InGlobalTx(cid, func(ctx context.Context) error {
				// every fourth case runs both statements on ONE pinned connection (db.Conn): database/sql does
				// not reset the session between them
				var db interface {
					ExecContext(ctx context.Context, query string, args ...interface{}) (sql.Result, error)
				} = xa
				if i%4 == 2 {
					conn, cerr := xa.Conn(ctx)
					if cerr != nil {
						panic(cerr)
					}
					defer closeSoon(conn)
					db = conn
				}
				for k := 0; k < 2; k++ {
					var early sync.WaitGroup
					if during && k == 1 {
						if brs0 := w.coord.RegisteredBranches(tmXID(ctx)); len(brs0) == 1 {
							w.Eng.AddFault(memdb.Fault{Kind: "update", Table: table, Nth: 1, Delay: 80 * time.Millisecond})
							early.Add(1)
							go func() {
								defer early.Done()
								time.Sleep(30 * time.Millisecond)
								safeCall(func() {
									if d[0] {
										w.coord.CommitBranch(w.coord.LastSession(), brs0[0], 3*time.Second)
									} else {
										w.coord.RollbackBranch(w.coord.LastSession(), brs0[0], 3*time.Second)
									}
								})
							}()
						}
					}
					if pn := safeCall(func() { _, errs[k] = db.ExecContext(ctx, "UPDATE "+table+" SET n = 7 WHERE id = ?", k+1) }); pn != "" {
						panic(pn)
					}
					early.Wait()
					w.Eng.ClearFaults()
				}
				return nil
			})
		})
		brs := w.coord.RegisteredBranches(xid)
		idOf := func(k int) string {
			if k < len(brs) {
				return fmt.Sprintf("%s-%d", xid, brs[k].BranchID)
			}
			return ""
		}
		regPos := []int{}
		for range brs {
			regPos = append(regPos, 0)
		}
		deliver := func(k int) {
			if k >= len(brs) {
				return
			}
			if d[k] {
				w.coord.CommitBranch(w.coord.LastSession(), brs[k], 3*time.Second)
			} else {
				w.coord.RollbackBranch(w.coord.LastSession(), brs[k], 3*time.Second)
			}
		}
		nPhaseOne := 0
		for _, e := range w.Eng.Journal() {
			if strings.HasPrefix(e.Kind, "xa_") || e.Kind == "update" {
				nPhaseOne++
			}
		}
		sessionsBefore := w.Eng.SessionCount()
		if order == "12" {
			deliver(0)
			deliver(1)
		} else {
			deliver(1)
			deliver(0)
		}
		sessionsAfter := w.Eng.SessionCount()
		// what the resource still keeps for phase two once both branches are finished
		var kept []string
		if len(brs) > 0 {
			if v, ok := datasource.GetDataSourceManager(branch.BranchTypeXA).GetCachedResources().Load(brs[0].ResourceID); ok {
				v.(*sql2.DBResource).GetKeeper().Range(func(k, _ interface{}) bool {
					if id := fmt.Sprint(k); id == idOf(0) || id == idOf(1) {
						kept = append(kept, id)
					}
					return true
				})
			}
		}
		// ---- trace: the registrations are placed before their XA START
		var toks []string
		class, detail := "", ""
		fail := func(cl, dd string) {
			if class == "" {
				class, detail = cl, dd
			}
		}
		kk := 0
		lastStart := ""
		for _, e := range w.Eng.Journal() {
			tok := map[string]string{"xa_start": "S", "xa_end": "E", "xa_prepare": "P", "xa_commit": "C", "xa_rollback": "R", "update": "x"}[e.Kind]
			if tok == "" {
				continue
			}
			if tok == "S" {
				toks = append(toks, "g")
				lastStart = xaIDOf(e.SQL)
			}
			if (tok == "E" || tok == "P") && xaIDOf(e.SQL) != lastStart {
				fail("branch_ended_under_another_identifier", fmt.Sprintf("%s after XA START '%s'", e.SQL, lastStart))
			}
			if e.Err != "" {
				tok += "!"
			}
			toks = append(toks, tok)
			kk++
			if !during && kk > nPhaseOne && (e.Kind == "xa_commit" || e.Kind == "xa_rollback") {
				// phase two: which branch was this command sent for?
				idx := kk - nPhaseOne - 1
				want := 0
				if (order == "12") == (idx == 1) {
					want = 1
				}
				if !strings.Contains(e.SQL, "'"+idOf(want)+"'") {
					fail("phase_two_addresses_another_branch", fmt.Sprintf("%s sent for branch %s", e.SQL, idOf(want)))
				}
			}
		}
		rows := w.Eng.Dump(table)
		st := [2]string{"gone", "gone"}
		for _, row := range rows {
			id, _ := row[0].(int64)
			if v, ok := row[1].(int64); ok && v == 7 && id >= 1 && id <= 2 {
				st[id-1] = "committed"
			}
		}
		for k := 0; k < 2; k++ {
			if s := w.Eng.XAState(idOf(k)); s == "PREPARED" || s == "ACTIVE" || s == "IDLE" {
				st[k] = strings.ToLower(s)
			}
		}
		dec := func(b bool) string {
			if b {
				return "commit"
			}
			return "rollback"
		}
		obs := fmt.Sprintf("%s | err=%d state=%s,%s", strings.Join(toks, " "), b2i(errs[0] != nil || errs[1] != nil), st[0], st[1])
		if during {
			// where the early delivery lands is up to the scheduler: decided by the oracle alone; the coordinator
			// retries a phase two that was refused while the connection was busy with the other branch
			c.Out.Case(cid, "C17", "skip", "skip")
			c.Out.Count("two-branches.phase-two-during-phase-one")
		} else {
			c.Out.Case(cid, "C17", fmt.Sprintf("xa2 %s %s %s", dec(d[0]), dec(d[1]), order), obs)
		}
		if crash != "" {
			fail("crash", crash)
		}
		for k := 0; k < 2; k++ {
			want := "gone"
			if d[k] {
				want = "committed"
			}
			if st[k] != want {
				fail("phase_two_not_applied", fmt.Sprintf("branch %d: decision %s, state %s", k+1, dec(d[k]), st[k]))
			}
		}
		if len(kept) > 0 {
			fail("finished_branch_still_kept", fmt.Sprintf("both branches went through phase two, the resource still keeps a connection for %v", kept))
		}
		if i%4 == 1 && errs[0] == nil && errs[1] == nil && sessionsAfter > sessions0 {
			// (the pool keeps no idle connection in this case: database/sql closed each connection when its statement
			// was over, the sessions were kept open for phase two only)
			fail("kept_connection_never_closed", fmt.Sprintf("%d connections to the database before the transaction, %d after both branches went through phase two", sessions0, sessionsAfter))
		}
		if !during && errs[0] == nil && errs[1] == nil && sessionsAfter > sessionsBefore {
			fail("phase_two_opened_a_connection", fmt.Sprintf("%d connections before phase two, %d after: a prepared branch whose connection is kept is finished on that connection", sessionsBefore, sessionsAfter))
		}
		c.Out.Oracle(cid, class == "", class, detail+" | "+obs)
		c.Out.Tag(cid, "nontrivial=1")
		c.Out.Count("two-branches." + order)
		for k := 0; k < 2; k++ {
			if s := w.Eng.XAState(idOf(k)); s == "PREPARED" {
				w.Eng.Exec("XA ROLLBACK '" + idOf(k) + "'")
			}
		}
		w.Eng.DropTable(table)
		_ = regPos
	}
}

// ---- (a) the branch identifier

func runC17Ids(c *Ctx) {
	rng := NewRng(c.Seed)
	n := c.Budget(150, 5000)
	alphabet := "0123456789-:.abcXYZ_"
	for i := 0; i < n; i++ {
		r := rng.Fork()
		cid := fmt.Sprintf("c17-i%d", i)
		var xid string
		switch r.Intn(4) {
		case 0:
			xid = fmt.Sprintf("127.0.0.1:8091:%d", r.U64()%1000000000000)
		case 1:
			xid = fmt.Sprintf("10.0.0.%d:8091:%d-%d", r.Intn(255), r.Intn(1000), r.Intn(1000))
		default:
			l := 1 + r.Intn(24)
			b := make([]byte, l)
			for k := range b {
				b[k] = alphabet[r.Intn(len(alphabet))]
			}
			xid = string(b)
		}
		branchID := []uint64{1, 9, 10, uint64(r.Intn(100000)), r.U64() >> 1, 1<<63 - 1, r.U64()}[r.Intn(7)]
		if branchID == 0 {
			branchID = 1
		}
		if !c.Want(cid) {
			continue
		}
		var text, dx string
		var db uint64
		crash := safeCall(func() {
			id := sql2.XaIdBuild(xid, branchID)
			text = id.String()
			back := sql2.XaIdBuildWithByte(id.GetGlobalTransactionId(), id.GetBranchQualifier())
			dx, db = back.GetGlobalXid(), back.GetBranchId()
		})
		c.Out.Case(cid, "C17", fmt.Sprintf("id %s %d", xid, branchID), fmt.Sprintf("%s %s %d", text, dx, db))
		ok := crash == "" && dx == xid && db == branchID
		c.Out.Oracle(cid, ok, "identifier_round_trip", fmt.Sprintf("xid %q branch %d -> %q -> (%q, %d) %s", xid, branchID, text, dx, db, crash))
		c.Out.Tag(cid, "nontrivial=1")
		c.Out.Count("ids")
	}
}

// ---- (b) the command sequence of one branch, one fault, one phase-two decision

var c17Faults = []string{"none", "register", "start", "stmt", "end", "prepare"}

func runC17Protocol(c *Ctx) {
	w := GetATWorld()
	xa := w.OpenXA()
	xa.SetMaxOpenConns(1) // one pooled connection: every branch reuses it
	isolate := func() {
		// a connection a failed case left inside an XA branch must not poison the next case
		if len(w.Eng.OpenTxns()) > 0 {
			xa.SetMaxIdleConns(0)
			xa.SetMaxIdleConns(2)
		}
	}
	rng := NewRng(c.Seed + 5)
	n := c.Budget(48, 900)
	mgr := datasource.GetDataSourceManager(branch.BranchTypeXA)
	// every fifth case runs its statement in an explicit local transaction (BeginTx / Exec / Commit)
	for i := 0; i < n; i++ {
		r := rng.Fork()
		cid := fmt.Sprintf("c17-p%d", i)
		fault := c17Faults[i%len(c17Faults)]
		commit := r.Bool()
		explicit := i%5 == 4
		viaPrepare := i%3 == 1
		forget := fault == "none" && r.Chance(30) // phase two reaches a process that does not hold the connection
		cs := genATCase(r, w, cid, ATGenOpts{})
		if len(cs.Rows) < 2 {
			cs.Rows = genRows(r, cs.Schema, 3)
		}
		if !c.Want(cid) {
			continue
		}
		sc := cs.Schema
		sc.Create(w.Eng)
		for _, row := range cs.Rows {
			w.Eng.InsertRows(sc.Table, toMemRow(row))
		}
		// a statement that certainly changes a row
		row := cs.Rows[r.Intn(len(cs.Rows))]
		var nonPK []int
		for ci := range sc.Cols {
			if !sc.isPK(ci) {
				nonPK = append(nonPK, ci)
			}
		}
		col := nonPK[r.Intn(len(nonPK))]
		v := ATVal{K: 'i', I: 424242}
		if sc.Cols[col].Typ == 's' {
			v = ATVal{K: 's', S: "xa-was-here"}
		}
		st := &ATStmt{Kind: 'U', Sets: []ATSet{{Col: col, Plus: -1, E: &ATExpr{K: 'a', Val: v}}},
			Where: &ATCond{Op: "cmp:e", E: []*ATExpr{{K: 'c', Col: sc.PK[0]}, {K: 'a', Val: row[sc.PK[0]]}}}}
		q, args, _ := st.Render(sc)
		before := w.DumpTable(sc.Table)
		w.coord.ResetLog()
		w.Eng.ResetJournal()
		type cev struct {
			pos int
			tok string
		}
		var cevs []cev
		xaLen := func() int {
			k := 0
			for _, e := range w.Eng.Journal() {
				if strings.HasPrefix(e.Kind, "xa_") || e.Kind == "update" {
					k++
				}
			}
			return k
		}
		w.coord.Script = func(s *FakeSession, kind string, m message.RpcMessage) Action {
			if b, ok := m.Body.(message.BranchRegisterRequest); ok && b.BranchType == branch.BranchTypeXA {
				if fault == "register" {
					cevs = append(cevs, cev{xaLen(), "g!"})
					return Action{Body: message.BranchRegisterResponse{AbstractTransactionResponse: failHead("refused")}}
				}
				cevs = append(cevs, cev{xaLen(), "g"})
			}
			return Action{}
		}
		switch fault {
		case "start":
			w.Eng.AddFault(memdb.Fault{Kind: "xa_start", Nth: 1})
		case "stmt":
			w.Eng.AddFault(memdb.Fault{Kind: "update", Table: sc.Table, Nth: 1})
		case "end":
			w.Eng.AddFault(memdb.Fault{Kind: "xa_end", Nth: 1})
		case "prepare":
			w.Eng.AddFault(memdb.Fault{Kind: "xa_prepare", Nth: 1})
		}
		var execErr error
		var xid string
		crash := safeCall(func() {
			var gerr error
			xid, gerr = InGlobalTx(cid, func(ctx context.Context) error {
				if explicit {
					tx, err := xa.BeginTx(ctx, nil)
					if err != nil {
						execErr = err
						return nil
					}
					if _, err = c17Exec(ctx, tx, viaPrepare, q, args); err != nil {
						execErr = err
						tx.Rollback()
						return nil
					}
					execErr = tx.Commit()
					return nil
				}
				if pn := safeCall(func() { _, execErr = c17Exec(ctx, xa, viaPrepare, q, args) }); pn != "" {
					panic(pn)
				}
				return nil
			})
			if gerr != nil && strings.Contains(gerr.Error(), "panic") {
				panic(gerr.Error())
			}
		})
		w.Eng.ClearFaults()
		w.coord.Script = nil
		// ---- phase two for a prepared branch
		brs := w.coord.RegisteredBranches(xid)
		var idText string
		if len(brs) > 0 {
			b := brs[len(brs)-1]
			idText = fmt.Sprintf("%s-%d", xid, b.BranchID)
			// a coordinator takes every registered branch through phase two unless the client reported it as failed
			// in phase one: a branch that was rolled back and not reported is "followed by a commit"
			if w.Eng.XAState(idText) == "PREPARED" || !w.coord.ReportedFailed(xid)[b.BranchID] {
				if forget {
					if v, ok := mgr.GetCachedResources().Load(b.ResourceID); ok {
						v.(*sql2.DBResource).Release(idText)
					}
				}
				if commit {
					w.coord.CommitBranch(w.coord.LastSession(), b, 3*time.Second)
				} else {
					w.coord.RollbackBranch(w.coord.LastSession(), b, 3*time.Second)
				}
			}
		}
		// ---- the trace
		var toks []string
		ids := map[string]bool{}
		k := 0
		ci := 0
		flush := func() {
			for ci < len(cevs) && cevs[ci].pos == k {
				toks = append(toks, cevs[ci].tok)
				ci++
			}
		}
		for _, e := range w.Eng.Journal() {
			tok := ""
			switch e.Kind {
			case "xa_start":
				tok = "S"
			case "xa_end":
				tok = "E"
			case "xa_prepare":
				tok = "P"
			case "xa_commit":
				tok = "C"
			case "xa_rollback":
				tok = "R"
			case "update":
				tok = "x"
			default:
				continue
			}
			flush()
			k++
			if e.Err != "" {
				tok += "!"
			}
			toks = append(toks, tok)
			if strings.HasPrefix(e.Kind, "xa_") {
				if a := strings.Index(e.SQL, "'"); a >= 0 {
					if b := strings.LastIndex(e.SQL, "'"); b > a {
						ids[e.SQL[a+1:b]] = true
					}
				}
			}
		}
		flush()
		after := w.DumpTable(sc.Table)
		state := "gone"
		switch {
		case after != before:
			state = "committed"
		case idText != "" && w.Eng.XAState(idText) != "":
			state = strings.ToLower(w.Eng.XAState(idText))
			if state == "rolledback" || state == "none" {
				state = "gone"
			}
		}
		p2 := "rollback"
		if commit {
			p2 = "commit"
		}
		obs := fmt.Sprintf("%s | err=%d state=%s", strings.Join(toks, " "), b2i(execErr != nil), state)
		c.Out.Case(cid, "C17", fmt.Sprintf("xa %s %s", fault, p2), obs)
		// ---- oracle on the implementation alone
		class, detail := "", ""
		fail := func(cl, d string) {
			if class == "" {
				class, detail = cl, d
			}
		}
		if crash != "" {
			fail("crash", crash)
		}
		if len(ids) > 1 || (len(ids) == 1 && !ids[idText]) {
			fail("branch_identifier_differs", fmt.Sprintf("commands used %v, expected %q", ids, idText))
		}
		// legal XA sequence (successful commands), registration before XA START
		xs := "none"
		for ti, t := range toks {
			if strings.HasSuffix(t, "!") && t != "g!" {
				continue
			}
			switch t {
			case "g":
				if xs != "none" {
					fail("registered_after_xa_start", strings.Join(toks, " "))
				}
			case "g!":
				if ti != len(toks)-1 {
					fail("commands_after_refused_registration", strings.Join(toks, " "))
				}
			case "S":
				if xs != "none" {
					fail("illegal_xa_sequence", strings.Join(toks, " "))
				}
				if ti == 0 || toks[0] != "g" {
					fail("xa_start_before_registration", strings.Join(toks, " "))
				}
				xs = "active"
			case "x":
				if xs != "active" {
					fail("illegal_xa_sequence", strings.Join(toks, " "))
				}
			case "E":
				if xs != "active" {
					fail("illegal_xa_sequence", strings.Join(toks, " "))
				}
				xs = "idle"
			case "P":
				if xs != "idle" {
					fail("illegal_xa_sequence", strings.Join(toks, " "))
				}
				xs = "prepared"
			case "C":
				if xs != "prepared" {
					fail("commit_without_prepare", strings.Join(toks, " "))
				}
				xs = "committed"
			case "R":
				if xs != "prepared" && xs != "idle" {
					fail("illegal_xa_sequence", strings.Join(toks, " "))
				}
				xs = "rolledback"
			}
		}
		finishes := 0
		for _, t := range toks {
			if strings.HasPrefix(t, "C") || strings.HasPrefix(t, "R") {
				finishes++
			}
			if fault != "none" && strings.HasPrefix(t, "C") {
				fail("commit_sent_after_failure", "the branch failed before its prepare, was rolled back and not reported: the coordinator takes it through phase two: "+strings.Join(toks, " "))
			}
		}
		if finishes > 1 {
			fail("branch_finished_twice", strings.Join(toks, " "))
		}
		if fault != "none" {
			if execErr == nil {
				fail("failure_not_returned", fmt.Sprintf("fault at %s but the caller got no error", fault))
			}
			if state == "committed" {
				fail("committed_after_failure", "")
			}
			if state != "gone" && state != "committed" {
				fail("branch_left_"+state, "a failed branch must be rolled back")
			}
		} else {
			if execErr != nil {
				fail("error_without_fault", execErr.Error())
			}
			want := "gone"
			if commit {
				want = "committed"
			}
			if state != want {
				fail("phase_two_not_applied", fmt.Sprintf("decision %s, branch %s", p2, state))
			}
		}
		if len(w.Eng.OpenTxns()) > 0 {
			fail("transaction_left_open", fmt.Sprint(w.Eng.OpenTxns()))
		}
		c.Out.Oracle(cid, class == "", class, fmt.Sprintf("%s | fault=%s p2=%s explicit=%v forget=%v | %s", detail, fault, p2, explicit, forget, obs))
		tag := "nontrivial=1"

		c.Out.Tag(cid, tag)
		c.Out.Count("fault." + fault)
		c.Out.Count(fmt.Sprintf("explicit=%v", explicit))
		if forget {
			c.Out.Count("phase-two-without-kept-connection")
		}
		// clean up whatever is left
		if idText != "" {
			switch w.Eng.XAState(idText) {
			case "PREPARED":
				w.Eng.Exec("XA ROLLBACK '" + idText + "'")
			}
		}
		w.Eng.DropTable(sc.Table)
		isolate()
	}
}

var xaIDRe = regexp.MustCompile(`'([^']*)'`)

// xaIDOf extracts the branch identifier of an XA command
func xaIDOf(sqlText string) string {
	if m := xaIDRe.FindStringSubmatch(sqlText); m != nil {
		return m[1]
	}
	return ""
}

// c17Exec sends a statement as a text or, for every third case, as a prepared statement
func c17Exec(ctx context.Context, x interface {
	PrepareContext(ctx context.Context, query string) (*sql.Stmt, error)
	ExecContext(ctx context.Context, query string, args ...interface{}) (sql.Result, error)
}, viaPrepare bool, q string, args []interface{}) (sql.Result, error) {
	if !viaPrepare {
		return x.ExecContext(ctx, q, args...)
	}
	ps, err := x.PrepareContext(ctx, q)
	if err != nil {
		return nil, err
	}
	defer ps.Close()
	return ps.ExecContext(ctx, args...)
}
