package main

import (
	"context"
	"errors"
	"fmt"
	"time"

	"seata.apache.org/seata-go/pkg/protocol/branch"

	"verifharness/memdb"
)

// runC09Types: a foreign write that changes the value a branch wrote only a little — the next representable
// DOUBLE, a DECIMAL in its last digit, the neighbouring BIGINT, a text by its case — is a foreign write all the
// same: the rollback must notice it and must not overwrite it (cases c09-y*).
func runC09Types(c *Ctx, w *ATWorld) {
	type kase struct {
		name    string
		def     memdb.Column
		v0      interface{}
		v1      string // what the branch writes
		foreign string // what somebody else writes afterwards
	}
	for i, k := range []kase{
		{"double-relative-5e-10", memdb.Column{Type: memdb.TDouble, Nullable: true}, 1000000.0, "2000000", "2000000.001"},
		{"double-next-representable", memdb.Column{Type: memdb.TDouble, Nullable: true}, 1.0, "2", "2.0000000000000004"},
		{"decimal-last-digit", memdb.Column{Type: memdb.TDecimal, Length: 20, Scale: 2, Nullable: true}, "10.00", "1234567890123456.78", "1234567890123456.79"},
		{"bigint-neighbour", memdb.Column{Type: memdb.TBigInt, Nullable: true}, int64(5), "9007199254740992", "9007199254740993"},
		{"varchar-case", memdb.Column{Type: memdb.TVarchar, Length: 16, Nullable: true}, "a", "'abc'", "'ABC'"},
		{"varchar-trailing-space", memdb.Column{Type: memdb.TVarchar, Length: 16, Nullable: true}, "a", "'abc'", "'abc '"},
	} {
		for _, ser := range []string{"json", "protobuf"} {
			cid := fmt.Sprintf("c09-y%d-%s", i, ser)
			if !c.Want(cid) {
				continue
			}
			w.SetUndoConfig(ser, "None", true, false)
			t := w.NewTableName("fw")
			d := k.def
			d.Name = "v"
			if err := w.Eng.CreateTable(memdb.TableDef{Name: t, Cols: []memdb.Column{{Name: "id", Type: memdb.TBigInt}, d}, PK: []string{"id"}}); err != nil {
				panic(err)
			}
			w.Eng.InsertRows(t, memdb.Row{int64(1), k.v0})
			w.Eng.Exec("DELETE FROM undo_log")
			w.coord.ResetLog()
			var execErr error
			var xid string
			crash := safeCall(func() {
				xid, _ = InGlobalTx(cid, func(ctx context.Context) error {
					_, execErr = w.DB.ExecContext(ctx, "UPDATE "+t+" SET v = "+k.v1+" WHERE id = 1")
					return errors.New("roll the global transaction back")
				})
			})
			ferr := w.Eng.Exec("UPDATE " + t + " SET v = " + k.foreign + " WHERE id = 1")
			withForeign := w.DumpTable(t)
			answeredRollbacked := false
			for _, b := range w.coord.RegisteredBranches(xid) {
				st, ok, _ := w.coord.RollbackBranch(w.coord.LastSession(), b, 5*time.Second)
				if ok && st == branch.BranchStatusPhasetwoRollbacked {
					answeredRollbacked = true
				}
			}
			final := w.DumpTable(t)
			class := ""
			switch {
			case crash != "":
				class = "crash"
			case execErr != nil || ferr != nil:
				class = "setup"
			case final != withForeign:
				class = "foreign_write_overwritten"
			case answeredRollbacked:
				class = "rollbacked_over_foreign_write"
			}
			c.Out.Case(cid, "C09", "skip", "skip")
			c.Out.Oracle(cid, class == "", class, fmt.Sprintf("%s: branch wrote %s, somebody else then %s | err=%v/%v with-foreign=%s final=%s rollbacked=%v %s", k.name, k.v1, k.foreign, execErr, ferr, withForeign, final, answeredRollbacked, crash))
			c.Out.Tag(cid, "nontrivial=1")
			c.Out.Count("foreign-small-change." + k.name)
			w.Eng.Exec("DELETE FROM undo_log")
			w.Eng.DropTable(t)
		}
	}
}
