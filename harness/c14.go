package main

import (
	"fmt"
	"os"
	"runtime"
	rconfig "seata.apache.org/seata-go/pkg/remoting/config"
	"strings"
	"sync"
	"time"

	"seata.apache.org/seata-go/pkg/protocol/branch"
	"seata.apache.org/seata-go/pkg/protocol/codec"
	"seata.apache.org/seata-go/pkg/protocol/message"
	sgetty "seata.apache.org/seata-go/pkg/remoting/getty"
)

func init() { props["C14"] = runC14 }

type c14Caller struct {
	idx    int
	xid    string
	msgID  int32
	seen   chan struct{}
	result string // own / foreign(x) / timeout / write-error / pending
	done   chan struct{}
}

type c14Case struct {
	id      string
	n       int
	evs     []string // schedule after the sends
	callers []*c14Caller
	drops   bool
	closeAt int // index in evs at which the connection is lost (-1 none)
}

func parkedInDelivery() int {
	buf := make([]byte, 1<<22)
	n := runtime.Stack(buf, true)
	cnt := 0
	for _, g := range strings.Split(string(buf[:n]), "\n\n") {
		if strings.Contains(g, "NotifyRpcMessageResponse") && strings.Contains(g, "chan send") {
			cnt++
		}
	}
	return cnt
}

func runC14(c *Ctx) {
	coord := Boot()
	rng := NewRng(c.Seed)
	sess := func() *FakeSession {
		ss := coord.Sessions()
		s := ss[len(ss)-1]
		if s.IsClosed() {
			s = coord.OpenSession()
		}
		return s
	}
	_ = sess()
	time.Sleep(50 * time.Millisecond) // let the RegisterTM exchange of the session finish
	runC14Early(c, coord)

	var cases []*c14Case
	mk := func(id string, n int, evs []string, drops bool) {
		if c.Want(id) {
			cases = append(cases, &c14Case{id: id, n: n, evs: evs, drops: drops, closeAt: -1})
		}
	}
	nFast := c.Budget(60, 2000)
	maxN := 8
	if c.Tier == "thorough" {
		maxN = 64
	}
	for i := 0; i < nFast; i++ {
		r := rng.Fork()
		n := 1 + r.Intn(maxN)
		perm := make([]int, n)
		for k := range perm {
			perm[k] = k + 1
		}
		for k := n - 1; k > 0; k-- {
			j := r.Intn(k + 1)
			perm[k], perm[j] = perm[j], perm[k]
		}
		var evs []string
		for _, p := range perm {
			evs = append(evs, fmt.Sprintf("r%d", p))
			if r.Chance(25) {
				evs = append(evs, fmt.Sprintf("r%d", p)) // duplicate reply
			}
			if r.Chance(15) {
				evs = append(evs, fmt.Sprintf("x%d", r.Intn(5)))
			}
			if r.Chance(10) {
				evs = append(evs, "h")
			}
		}
		if r.Chance(30) { // stragglers for already answered requests, in any order
			for k := 0; k < 1+r.Intn(3); k++ {
				evs = append(evs, fmt.Sprintf("r%d", perm[r.Intn(n)]))
			}
		}
		mk(fmt.Sprintf("fast-%d", i), n, evs, false)
	}
	// a PONG that happens to carry a pending request's message id, then the request's reply
	for i := 0; i < c.Budget(3, 20); i++ {
		mk(fmt.Sprintf("pong-%d", i), 2, []string{"H1", "r1", "r2"}, true)
	}
	// the timeout batch: some replies never come (20 s RpcRequestTimeout, all cases in parallel),
	// late replies arrive after the callers gave up, once and twice
	nSlow := c.Budget(12, 60)
	for i := 0; i < nSlow; i++ {
		r := rng.Fork()
		n := 2 + r.Intn(5)
		var evs, late []string
		for p := 1; p <= n; p++ {
			switch r.Intn(3) {
			case 0:
				evs = append(evs, fmt.Sprintf("r%d", p))
			default:
				late = append(late, fmt.Sprintf("t%d", p))
			}
		}
		if len(late) == 0 {
			late = append(late, "t1")
			evs = evs[1:]
		}
		evs = append(evs, late...)
		for _, t := range late {
			p := t[1:]
			if r.Chance(70) {
				evs = append(evs, "r"+p)
				if r.Chance(50) {
					evs = append(evs, "r"+p)
				}
			}
		}
		mk(fmt.Sprintf("slow-%d", i), n, evs, true)
	}

	// ---- coordinator script: hold every GlobalStatus request of a case, remember its message id
	var mu sync.Mutex
	byXid := map[string]*c14Caller{}
	asyncIDs := map[string]int32{}
	// the session goes away between being chosen and being written to: the request fails, and nothing of it
	// stays behind in the table of pending requests
	if cfg := rconfig.GetSeataConfig(); cfg != nil {
		savedLB := cfg.LoadBalanceType
		cfg.LoadBalanceType = "XID"
		coord.Script = nil
		for k := 1; k <= 4; k++ {
			for _, async := range []bool{false, true} {
				cid := fmt.Sprintf("closing-%d-%v", k, async)
				if !c.Want(cid) {
					continue
				}
				addr := fmt.Sprintf("10.2.0.%d:8091", 10+k)
				s2 := coord.OpenSessionAt(addr)
				time.Sleep(10 * time.Millisecond)
				f0, _ := sgetty.VerifPendingFutures()
				s2.CloseAtCheck(k)
				req := message.GlobalStatusRequest{AbstractGlobalEndRequest: message.AbstractGlobalEndRequest{Xid: fmt.Sprintf("%s:%d", addr, 4200+k)}}
				var err error
				crash := safeCall(func() {
					if async {
						err = sgetty.GetGettyRemotingClient().SendAsyncRequest(req)
					} else {
						_, err = sgetty.GetGettyRemotingClient().SendSyncRequest(req)
					}
				})
				if async && err == nil {
					time.Sleep(50 * time.Millisecond) // an async request that did go out (over another session) is answered
				}
				f1, _ := sgetty.VerifPendingFutures()
				s2.CloseFromPeer()
				c.Out.Case(cid, "C14", "skip", "skip")
				c.Out.Oracle(cid, crash == "" && f1 == f0, "future_left_behind_by_a_refused_request", fmt.Sprintf("session closed at its IsClosed question %d, async=%v: err=%v pending futures %d -> %d crash=%s", k, async, err, f0, f1, crash))
				c.Out.Tag(cid, "nontrivial=1")
				c.Out.Count("closing-session")
			}
		}
		cfg.LoadBalanceType = savedLB
	}
	coord.Script = func(s *FakeSession, kind string, m message.RpcMessage) Action {
		if b, ok := m.Body.(message.GlobalStatusRequest); ok {
			if strings.HasSuffix(b.Xid, "-async") {
				// an asynchronous request that is never answered: its future must go away with the timeout
				mu.Lock()
				asyncIDs[strings.TrimSuffix(b.Xid, "-async")] = m.ID
				mu.Unlock()
				return Action{Drop: true}
			}
			mu.Lock()
			cl := byXid[b.Xid]
			mu.Unlock()
			if cl != nil {
				cl.msgID = m.ID
				close(cl.seen)
				return Action{Drop: true}
			}
		}
		return Action{}
	}
	defer func() { coord.Script = nil }()

	reply := func(s *FakeSession, cl *c14Caller) {
		// the reply carries a marker naming the request it answers
		body := message.GlobalStatusResponse{AbstractGlobalEndResponse: message.AbstractGlobalEndResponse{
			AbstractTransactionResponse: failHead("for-" + cl.xid), GlobalStatus: message.GlobalStatusBegin}}
		s.Push(message.RpcMessage{ID: cl.msgID, Type: message.GettyRequestTypeResponse, Codec: byte(codec.CodecTypeSeata), Body: body})
	}

	runCase := func(k *c14Case, s *FakeSession, waitTimeouts func()) {
		for i := 1; i <= k.n; i++ {
			cl := &c14Caller{idx: i, xid: fmt.Sprintf("%s-%d", k.id, i), seen: make(chan struct{}), done: make(chan struct{}), result: "pending"}
			k.callers = append(k.callers, cl)
			mu.Lock()
			byXid[cl.xid] = cl
			mu.Unlock()
		}
		for _, cl := range k.callers {
			cl := cl
			go func() {
				defer close(cl.done)
				p := safeCall(func() {
					res, err := sgetty.GetGettyRemotingClient().SendSyncRequest(message.GlobalStatusRequest{
						AbstractGlobalEndRequest: message.AbstractGlobalEndRequest{Xid: cl.xid}})
					switch {
					case err != nil && strings.Contains(err.Error(), "timeout"):
						cl.result = "timeout"
					case err != nil:
						cl.result = "write-error"
					default:
						if r, ok := res.(message.GlobalStatusResponse); ok && r.Msg == "for-"+cl.xid {
							cl.result = "own"
						} else if ok {
							cl.result = "foreign(" + r.Msg + ")"
						} else {
							cl.result = fmt.Sprintf("foreign(%T)", res)
						}
					}
				})
				if p != "" {
					cl.result = "crash"
				}
			}()
		}
		for _, cl := range k.callers {
			<-cl.seen
		}
		if k.drops {
			safeCall(func() {
				sgetty.GetGettyRemotingClient().SendAsyncRequest(message.GlobalStatusRequest{
					AbstractGlobalEndRequest: message.AbstractGlobalEndRequest{Xid: k.id + "-async"}})
			})
		}
		waited := false
		for _, e := range k.evs {
			var idx int
			fmt.Sscanf(e[1:], "%d", &idx)
			switch e[0] {
			case 'r':
				cl := k.callers[idx-1]
				done := make(chan struct{})
				go func() { reply(s, cl); close(done) }()
				select {
				case <-done:
				case <-time.After(2 * time.Second): // delivery is parked: keep going, it is counted below
				}
				// give the caller the chance to pick the answer up before the next event
				select {
				case <-cl.done:
				case <-time.After(20 * time.Millisecond):
				}
			case 't':
				if !waited {
					waitTimeouts()
					waited = true
				}
				<-k.callers[idx-1].done
			case 'x':
				sgetty.GetGettyRemotingClient().SendAsyncResponse(int32(900+idx), message.BranchCommitResponse{
					AbstractBranchEndResponse: message.AbstractBranchEndResponse{AbstractTransactionResponse: okHead(), Xid: "x", BranchId: 1, BranchStatus: branch.BranchStatusPhasetwoCommitted}})
			case 'h':
				sgetty.GetGettyClientHandlerInstance().OnCron(s)
			case 'H':
				// a heart-beat whose PONG carries the same message id as caller idx's pending request (heart-beats
				// are numbered by a counter of their own): it must not touch that request's future
				cl := k.callers[idx-1]
				last := int32(0)
				for _, l := range coord.Snapshot() {
					if _, ok := l.Msg.Body.(message.HeartBeatMessage); ok && l.Msg.ID > last {
						last = l.Msg.ID
					}
				}
				if last < cl.msgID && cl.msgID-last < 200000 {
					for ; last < cl.msgID; last++ {
						sgetty.GetGettyClientHandlerInstance().OnCron(s) // pings are not answered by the coordinator
					}
					s.Push(message.RpcMessage{ID: cl.msgID, Type: message.GettyRequestTypeHeartbeatResponse, Codec: byte(codec.CodecTypeSeata), Body: message.HeartBeatMessagePong})
					c.Out.Count("pong.colliding-with-pending-request")
				} else {
					c.Out.Count("pong.collision-not-reachable")
				}
			}
		}
	}

	emit := func(k *c14Case) {
		var parts []string
		residue := 0
		for _, cl := range k.callers {
			select {
			case <-cl.done:
			case <-time.After(100 * time.Millisecond):
			}
			parts = append(parts, fmt.Sprintf("c%d=%s", cl.idx, cl.result))
			if sgetty.GetGettyRemotingClient().GetMessageFuture(cl.msgID) != nil {
				residue++
			}
		}
		for i := 0; i < 5; i++ {
			if sgetty.GetGettyRemotingClient().GetMessageFuture(int32(900+i)) != nil {
				residue++
			}
		}
		mu.Lock()
		aid, hasAsync := asyncIDs[k.id]
		mu.Unlock()
		if os.Getenv("VERIF_DEBUG") != "" {
			fmt.Fprintf(os.Stderr, "DEBUG %s hasAsync=%v aid=%d present=%v\n", k.id, hasAsync, aid, hasAsync && sgetty.GetGettyRemotingClient().GetMessageFuture(aid) != nil)
		}
		if hasAsync {
			// sent just after the synchronous requests: its timeout fires just after theirs
			for w := 0; w < 100 && sgetty.GetGettyRemotingClient().GetMessageFuture(aid) != nil; w++ {
				time.Sleep(20 * time.Millisecond)
			}
			if sgetty.GetGettyRemotingClient().GetMessageFuture(aid) != nil {
				residue++
			}
		}
		blocked := parkedInDelivery()
		obs := fmt.Sprintf("%s residue=%d blocked=%d", strings.Join(parts, " "), residue, blocked)
		sends := make([]string, k.n)
		for i := range sends {
			sends[i] = fmt.Sprintf("s%d", i+1)
		}
		c.Out.Case(k.id, "C14", fmt.Sprintf("sched %d %s %s", k.n, strings.Join(sends, " "), strings.ReplaceAll(strings.Join(k.evs, " "), "H", "h")), obs)
		// oracle on the implementation alone
		class, detail := "", ""
		for _, cl := range k.callers {
			answered := false
			for _, e := range k.evs {
				if e == fmt.Sprintf("t%d", cl.idx) {
					break
				}
				if e == fmt.Sprintf("r%d", cl.idx) {
					answered = true
					break
				}
			}
			switch {
			case strings.HasPrefix(cl.result, "foreign"):
				class, detail = "foreign_reply", fmt.Sprintf("caller %d got %s", cl.idx, cl.result)
			case cl.result == "crash":
				class, detail = "crash", fmt.Sprintf("caller %d panicked", cl.idx)
			case answered && cl.result != "own":
				class, detail = "lost_reply", fmt.Sprintf("caller %d was answered but returned %s", cl.idx, cl.result)
			case !answered && cl.result != "timeout":
				class, detail = "no_timeout", fmt.Sprintf("caller %d was never answered in time but returned %s", cl.idx, cl.result)
			}
		}
		if class == "" && residue > 0 {
			class, detail = "residue", fmt.Sprintf("%d futures left behind", residue)
		}
		if class == "" && blocked > 0 {
			class, detail = "delivery_blocked", fmt.Sprintf("%d goroutines parked in response delivery", blocked)
		}
		c.Out.Oracle(k.id, class == "", class, detail+" | "+obs)
		c.Out.Tag(k.id, fmt.Sprintf("nontrivial=%d", b2i(k.n > 1)))
		if k.drops {
			c.Out.Count("batch.timeouts")
		} else {
			c.Out.Count("batch.fast")
		}
		c.Out.Count(fmt.Sprintf("callers.%d", k.n))
	}

	s := sess()
	// the reply overtakes the writer: the coordinator's answer is processed before WritePkg returns
	nSync := c.Budget(20, 300)
	for i := 0; i < nSync; i++ {
		cid := fmt.Sprintf("sync-%d", i)
		if !c.Want(cid) {
			continue
		}
		n := 1 + i%4
		var wgs sync.WaitGroup
		results := make([]string, n)
		coord.Script = func(s *FakeSession, kind string, m message.RpcMessage) Action {
			if b, ok := m.Body.(message.GlobalStatusRequest); ok && strings.HasPrefix(b.Xid, cid+"-") {
				return Action{Sync: true, Body: message.GlobalStatusResponse{AbstractGlobalEndResponse: message.AbstractGlobalEndResponse{
					AbstractTransactionResponse: failHead("for-" + b.Xid), GlobalStatus: message.GlobalStatusBegin}}}
			}
			return Action{}
		}
		for k := 0; k < n; k++ {
			k := k
			wgs.Add(1)
			go func() {
				defer wgs.Done()
				xid := fmt.Sprintf("%s-%d", cid, k+1)
				res, err := sgetty.GetGettyRemotingClient().SendSyncRequest(message.GlobalStatusRequest{AbstractGlobalEndRequest: message.AbstractGlobalEndRequest{Xid: xid}})
				switch {
				case err != nil && strings.Contains(err.Error(), "timeout"):
					results[k] = "timeout"
				case err != nil:
					results[k] = "write-error"
				default:
					if r, ok := res.(message.GlobalStatusResponse); ok && r.Msg == "for-"+xid {
						results[k] = "own"
					} else {
						results[k] = "foreign"
					}
				}
			}()
		}
		wgs.Wait()
		f := settledFutures()
		var parts, evs []string
		okAll := true
		for k := 0; k < n; k++ {
			parts = append(parts, fmt.Sprintf("c%d=%s", k+1, results[k]))
			evs = append(evs, fmt.Sprintf("s%d r%d", k+1, k+1))
			if results[k] != "own" {
				okAll = false
			}
		}
		obs := fmt.Sprintf("%s residue=%d blocked=%d", strings.Join(parts, " "), f, parkedInDelivery())
		c.Out.Case(cid, "C14", fmt.Sprintf("sched %d %s", n, strings.Join(evs, " ")), obs)
		c.Out.Oracle(cid, okAll && f == 0, "reply_overtakes_writer", "a reply processed before WritePkg returned was not delivered to its caller | "+obs)
		c.Out.Tag(cid, fmt.Sprintf("nontrivial=%d", b2i(n > 1)))
		c.Out.Count("batch.sync-reply")
	}
	coord.Script = func(s *FakeSession, kind string, m message.RpcMessage) Action {
		if b, ok := m.Body.(message.GlobalStatusRequest); ok {
			if strings.HasSuffix(b.Xid, "-async") {
				// an asynchronous request that is never answered: its future must go away with the timeout
				mu.Lock()
				asyncIDs[strings.TrimSuffix(b.Xid, "-async")] = m.ID
				mu.Unlock()
				return Action{Drop: true}
			}
			mu.Lock()
			cl := byXid[b.Xid]
			mu.Unlock()
			if cl != nil {
				cl.msgID = m.ID
				close(cl.seen)
				return Action{Drop: true}
			}
		}
		return Action{}
	}
	// fast cases: a few at a time (they share the one session and the one table, as in deployment)
	var wg sync.WaitGroup
	sem := make(chan struct{}, 8)
	for _, k := range cases {
		if k.drops {
			continue
		}
		k := k
		wg.Add(1)
		sem <- struct{}{}
		go func() {
			defer wg.Done()
			defer func() { <-sem }()
			runCase(k, s, func() {})
		}()
	}
	wg.Wait()
	for _, k := range cases {
		if !k.drops {
			emit(k)
		}
	}
	// the timeout batch: everything starts together so that all waits expire together (~20 s)
	start := time.Now()
	for _, k := range cases {
		if !k.drops {
			continue
		}
		k := k
		wg.Add(1)
		go func() {
			defer wg.Done()
			runCase(k, s, func() {
				if d := sgetty.RpcRequestTimeout + 300*time.Millisecond - time.Since(start); d > 0 {
					time.Sleep(d)
				}
			})
		}()
	}
	wg.Wait()
	for _, k := range cases {
		if k.drops {
			emit(k)
		}
	}
	// connection loss while requests are pending (thorough: costs another timeout period): the callers
	// get a timeout error, nothing stays behind, and a new session serves fresh requests
	if c.Tier == "thorough" && c.Want("close-pending") {
		k := &c14Case{id: "close-pending", n: 3, evs: []string{"r2", "c", "t1", "t3", "r1"}, drops: true}
		start2 := time.Now()
		// run it by hand: the 'c' event closes the session
		for i := 1; i <= k.n; i++ {
			cl := &c14Caller{idx: i, xid: fmt.Sprintf("%s-%d", k.id, i), seen: make(chan struct{}), done: make(chan struct{}), result: "pending"}
			k.callers = append(k.callers, cl)
			mu.Lock()
			byXid[cl.xid] = cl
			mu.Unlock()
		}
		k2 := &c14Case{id: k.id, n: k.n, drops: true, closeAt: -1}
		k2.evs = []string{"r2"}
		_ = k2
		// reuse runCase for the part before the close, then close, then wait
		pre := &c14Case{id: k.id, n: k.n, evs: []string{"r2"}, drops: true}
		byXid = map[string]*c14Caller{}
		runCase(pre, s, func() {})
		s.CloseFromPeer()
		ns := coord.OpenSession()
		if d := sgetty.RpcRequestTimeout + 300*time.Millisecond - time.Since(start2); d > 0 {
			time.Sleep(d)
		}
		for _, cl := range pre.callers {
			select {
			case <-cl.done:
			case <-time.After(time.Second):
			}
		}
		reply(ns, pre.callers[0])
		pre.evs = k.evs
		emit(pre)
		s = ns
	}
	// no coordinator is connected at all (every session lost, none back within the minute the client waits):
	// a request fails with an error, it does not crash its caller; then a session comes back
	if c.Want("no-session") {
		coord.Script = nil
		for _, ss := range coord.Sessions() {
			ss.CloseFromPeer()
		}
		f0, _ := sgetty.VerifPendingFutures()
		var err error
		t0 := time.Now()
		crash := safeCall(func() {
			_, err = sgetty.GetGettyRemotingClient().SendSyncRequest(message.GlobalStatusRequest{AbstractGlobalEndRequest: message.AbstractGlobalEndRequest{Xid: "127.0.0.1:8091:77"}})
		})
		f1, _ := sgetty.VerifPendingFutures()
		s = coord.OpenSession()
		time.Sleep(30 * time.Millisecond)
		c.Out.Case("no-session", "C14", "skip", "skip")
		c.Out.Oracle("no-session", crash == "" && err != nil && f1 == f0, "request_without_any_session", fmt.Sprintf("err=%v crash=%s pending futures %d -> %d after %v", err, crash, f0, f1, time.Since(t0).Round(time.Second)))
		c.Out.Tag("no-session", "nontrivial=1")
		c.Out.Count("no-session")
	}
	// after the disturbance a fresh request must complete
	if c.Want("fresh-after") {
		coord.Script = nil
		res, err := sgetty.GetGettyRemotingClient().SendSyncRequest(message.GlobalStatusRequest{AbstractGlobalEndRequest: message.AbstractGlobalEndRequest{Xid: "fresh"}})
		okf := err == nil && res != nil
		f := settledFutures()
		obs := fmt.Sprintf("c1=%s residue=%d blocked=%d", map[bool]string{true: "own", false: "timeout"}[okf], f, parkedInDelivery())
		c.Out.Case("fresh-after", "C14", "sched 1 s1 r1", obs)
		c.Out.Oracle("fresh-after", okf && f == 0, "fresh_request_after_disturbance", obs)
		c.Out.Tag("fresh-after", "nontrivial=1")
	}
}

// settledFutures reads the size of the pending-request table once requests that are being answered in the
// background (the registration a freshly opened session triggers) have had a moment to complete: what is
// still there after that has been left behind
func settledFutures() int {
	f, _ := sgetty.VerifPendingFutures()
	for k := 0; k < 30 && f > 0; k++ {
		time.Sleep(10 * time.Millisecond)
		f, _ = sgetty.VerifPendingFutures()
	}
	return f
}

// ---- shortly after start-up: thirty requests are in flight (their numbers are the first the client hands
// out) when further sessions open and the client announces itself on each of them. Every message the client
// numbers — requests and announcements alike — shares one table of pending futures: each caller must get the
// reply to ITS request.
func runC14Early(c *Ctx, coord *Coord) {
	cid := "early-1"
	if !c.Want(cid) {
		return
	}
	const n = 30
	release := make(chan struct{})
	coord.Script = func(s *FakeSession, kind string, m message.RpcMessage) Action {
		if b, ok := m.Body.(message.GlobalStatusRequest); ok && strings.HasPrefix(b.Xid, "early-") {
			<-release
			return Action{Body: message.GlobalStatusResponse{AbstractGlobalEndResponse: message.AbstractGlobalEndResponse{
				AbstractTransactionResponse: okHead(), GlobalStatus: message.GlobalStatus(1 + len(b.Xid)%3)}}}
		}
		return Action{}
	}
	type res struct {
		ok   bool
		what string
	}
	results := make([]res, n)
	var wg sync.WaitGroup
	for k := 0; k < n; k++ {
		wg.Add(1)
		go func(k int) {
			defer wg.Done()
			xid := fmt.Sprintf("early-%s", strings.Repeat("x", k%3))
			pn := safeCall(func() {
				r, err := sgetty.GetGettyRemotingClient().SendSyncRequest(message.GlobalStatusRequest{AbstractGlobalEndRequest: message.AbstractGlobalEndRequest{Xid: xid}})
				switch rr := r.(type) {
				case message.GlobalStatusResponse:
					if rr.GlobalStatus == message.GlobalStatus(1+len(xid)%3) {
						results[k] = res{true, ""}
					} else {
						results[k] = res{false, fmt.Sprintf("the reply to another request (status %d)", rr.GlobalStatus)}
					}
				default:
					results[k] = res{false, fmt.Sprintf("got %T / %v", r, err)}
				}
			})
			if pn != "" {
				results[k] = res{false, "crash: " + pn}
			}
		}(k)
	}
	// all thirty are with the coordinator now
	coord.WaitFor(2*time.Second, func(l []LoggedReq) bool {
		k := 0
		for _, e := range l {
			if e.Kind == "GlobalStatus" && strings.HasPrefix(e.Xid, "early-") {
				k++
			}
		}
		return k >= n
	})
	var opened []*FakeSession
	for k := 0; k < 12; k++ {
		opened = append(opened, coord.OpenSessionAt(fmt.Sprintf("10.14.0.%d:8091", k+1)))
	}
	time.Sleep(100 * time.Millisecond)
	close(release)
	done := make(chan struct{})
	go func() { wg.Wait(); close(done) }()
	timedOut := false
	select {
	case <-done:
	case <-time.After(8 * time.Second):
		timedOut = true
	}
	coord.Script = nil
	bad := 0
	detail := ""
	for k, r := range results {
		if !r.ok {
			bad++
			if detail == "" {
				detail = fmt.Sprintf("request %d: %s", k, r.what)
				if r.what == "" {
					detail = fmt.Sprintf("request %d: still waiting after its reply was sent", k)
				}
			}
		}
	}
	c.Out.Case(cid, "C14", "skip", "skip")
	c.Out.Oracle(cid, bad == 0 && !timedOut, "own_reply", fmt.Sprintf("%d of %d requests did not get their own reply (%s) while 12 sessions opened", bad, n, detail))
	c.Out.Tag(cid, "nontrivial=1")
	c.Out.Count("early.sessions-open-during-requests")
	for _, s := range opened {
		s.CloseFromPeer()
	}
	if timedOut {
		// the callers still waiting will give up at the request timeout; do not let them disturb what follows
		<-done
	}
	coord.ResetLog()
}
