package main

import (
	"strconv"
	"encoding/hex"
	"fmt"
	"strings"

	"seata.apache.org/seata-go/pkg/datasource/sql/types"
)

func init() { props["C09"] = runC09 }

// rowsByKey returns the current rows of the case's table keyed by the key text used in lock keys
func rowsByKey(w *ATWorld, sc *ATSchema) map[string][]string {
	out := map[string][]string{}
	for _, r := range w.Eng.Dump(sc.Table) {
		parts := make([]string, len(sc.PK))
		for k, p := range sc.PK {
			parts[k] = keyText(r[p])
		}
		cells := make([]string, len(r))
		for i, v := range r {
			cells[i] = canonCell(v)
		}
		out[strings.Join(parts, "_")] = cells
	}
	return out
}

// imageCells returns key -> (col index -> cell) of an image
func imageCells(sc *ATSchema, img *types.RecordImage) map[string]map[int]string {
	out := map[string]map[int]string{}
	if img == nil {
		return out
	}
	idx := map[string]int{}
	for i, c := range sc.Cols {
		idx[strings.ToLower(c.Name)] = i
	}
	for _, r := range img.Rows {
		parts := make([]string, len(sc.PK))
		cells := map[int]string{}
		for _, col := range r.Columns {
			ci, ok := idx[strings.ToLower(strings.Trim(col.ColumnName, "`"))]
			if !ok {
				continue
			}
			cells[ci] = canonCell(col.Value)
			for k, p := range sc.PK {
				if p == ci {
					parts[k] = keyText(col.Value)
				}
			}
		}
		out[strings.Join(parts, "_")] = cells
	}
	return out
}

func cellsMatch(img map[int]string, row []string) bool {
	if img == nil {
		return row == nil
	}
	if row == nil {
		return false
	}
	for c, v := range img {
		if c >= len(row) || row[c] != v {
			return false
		}
	}
	return true
}

func runC09(c *Ctx) {
	w := GetATWorld()
	defer runC09Types(c, w)
	defer runC09BrokenCurrentRows(c, w)
	rng := NewRng(c.Seed)
	n := c.Budget(300, 30000)
	for i := 0; i < n; i++ {
		r := rng.Fork()
		cid := fmt.Sprintf("c09-%d", i)
		o := ATGenOpts{NullableVals: r.Chance(40), CollideKeys: r.Chance(25), BigInts: r.Chance(15), Upserts: r.Chance(25)}
		cs := genATCase(r, w, cid, o)
		cs.Validate = true
		if len(cs.Rows) < 2 {
			cs.Rows = genRows(r, cs.Schema, 3)
		}
		if !c.Want(cid) {
			continue
		}
		sc := cs.Schema
		run := &ATRun{w: w, c: cs}
		run.PhaseOne(nil)
		run.Snap()
		// ---- foreign modifications on rows the branches wrote
		var keys []string
		for _, b := range run.Branches {
			for _, k := range strings.Split(parseLockKeys(b.LockKey), ",") {
				if k != "-" && k != "" {
					keys = append(keys, k)
				}
			}
		}
		cur := rowsByKey(w, sc)
		nF := r.Intn(3)
		if len(keys) == 0 {
			nF = 0
		}
		foreignKeys := map[string]bool{}
		// keys whose parts concatenate to the same text as another written key's ((1,10) and (11,0)): the
		// row comparison must still tell them apart
		var twins []string
		flat := map[string]int{}
		for _, k := range uniqStrings(keys) {
			flat[strings.ReplaceAll(k, "_", "")]++
		}
		for _, k := range uniqStrings(keys) {
			if flat[strings.ReplaceAll(k, "_", "")] > 1 {
				twins = append(twins, k)
			}
		}
		if len(twins) > 0 {
			c.Out.Count("twin-keys-written")
			if nF == 0 {
				nF = 1
			}
		}
		for f := 0; f < nF; f++ {
			key := keys[r.Intn(len(keys))]
			if len(twins) > 0 && r.Chance(80) {
				key = twins[r.Intn(len(twins))]
			}
			kparts := strings.Split(key, "_")
			where := &ATCond{Op: "cmp:e", E: []*ATExpr{{K: 'c', Col: sc.PK[0]}, {K: 'l', Val: keyVal(sc, sc.PK[0], kparts[0])}}}
			for k := 1; k < len(sc.PK) && k < len(kparts); k++ {
				where = &ATCond{Op: "A", A: where, B: &ATCond{Op: "cmp:e", E: []*ATExpr{{K: 'c', Col: sc.PK[k]}, {K: 'a', Val: keyVal(sc, sc.PK[k], kparts[k])}}}}
			}
			var st *ATStmt
			_, exists := cur[key]
			switch {
			case !exists:
				// the branch deleted this key: somebody re-inserts it
				row := make([]*ATExpr, len(sc.Cols))
				for ci, col := range sc.Cols {
					v := genVal(r, col)
					for k, p := range sc.PK {
						if p == ci && k < len(kparts) {
							v = keyVal(sc, p, kparts[k])
						}
					}
					row[ci] = &ATExpr{K: 'l', Val: v}
				}
				st = &ATStmt{Kind: 'X', Rows: [][]*ATExpr{row}}
			case r.Chance(25):
				st = &ATStmt{Kind: 'D', Where: where}
			default:
				var nonPK []int
				for ci := range sc.Cols {
					if !sc.isPK(ci) {
						nonPK = append(nonPK, ci)
					}
				}
				col := nonPK[r.Intn(len(nonPK))]
				v := genVal(r, sc.Cols[col])
				if sc.Cols[col].Typ == 'i' && v.K == 'i' {
					v.I += 100 // a value no statement of the program produces
				}
				if cells := cur[key]; sc.Cols[col].Typ == 'i' && col < len(cells) && strings.HasPrefix(cells[col], "i") {
					// beyond 2^53 the neighbouring integer is another number, though not another float64
					if n, err := strconv.ParseInt(cells[col][1:], 10, 64); err == nil && (n >= 1<<53 || n <= -(1<<53)) {
						v = ATVal{K: 'i', I: n + 1}
						c.Out.Count("foreign.adjacent-beyond-2p53")
					}
				}
				if cells := cur[key]; sc.Cols[col].Typ == 's' && col < len(cells) && strings.HasPrefix(cells[col], "s") {
					// a text that reads as a number is changed into another text for the same number ("7" -> "007")
					if raw, err := hex.DecodeString(cells[col][1:]); err == nil {
						if tw, ok := numericTwin(string(raw), f); ok {
							v = ATVal{K: 's', S: tw}
							c.Out.Count("foreign.numeric-twin")
						}
					}
				}
				st = &ATStmt{Kind: 'U', Sets: []ATSet{{Col: col, Plus: -1, E: &ATExpr{K: 'a', Val: v}}}, Where: where}
			}
			q, args, tok := st.Render(sc)
			err := w.Eng.Exec(q, args...)
			run.Toks = append(run.Toks, "F"+tok)
			if err != nil {
				run.Obs = append(run.Obs, "F:err")
			} else {
				run.Obs = append(run.Obs, "F:ok")
				foreignKeys[key] = true
			}
		}
		// ---- which keys are dirty (current differs from both images of the LAST item that wrote them)?
		pre := rowsByKey(w, sc)
		dirty := map[string]int{} // key -> branch index
		dirtyCols := map[string][]int{}
		for bi, l := range run.Logs {
			if l == nil {
				continue
			}
			for _, it := range l.Logs {
				bc, ac := imageCells(sc, it.BeforeImage), imageCells(sc, it.AfterImage)
				ks := map[string]bool{}
				for k := range bc {
					ks[k] = true
				}
				for k := range ac {
					ks[k] = true
				}
				for k := range ks {
					if !foreignKeys[k] {
						continue
					}
					var b, a map[int]string
					if v, ok := bc[k]; ok {
						b = v
					}
					if v, ok := ac[k]; ok {
						a = v
					}
					// an item that did not change the row (before image == after image) wrote nothing there
					same := b != nil && a != nil && len(a) == len(b)
					if same {
						for ci, v := range b {
							if a[ci] != v {
								same = false
							}
						}
					}
					if same {
						continue
					}
					// the LAST item that wrote the row decides (rollback runs in reverse order)
					if !cellsMatch(b, pre[k]) && !cellsMatch(a, pre[k]) {
						dirty[k] = bi
						// the columns that carry the foreign value: tracked by this item and different from both
						// images (other tracked columns may legitimately be restored by an EARLIER branch that
						// wrote them and finds its own after image there)
						var cols []int
						seenCol := map[int]bool{}
						for _, img := range []map[int]string{a, b} {
							for ci := range img {
								if seenCol[ci] || pre[k] == nil || ci >= len(pre[k]) {
									continue
								}
								seenCol[ci] = true
								av, aok := a[ci]
								bv, bok := b[ci]
								if (aok && av == pre[k][ci]) || (bok && bv == pre[k][ci]) {
									continue
								}
								cols = append(cols, ci)
							}
						}
						dirtyCols[k] = cols
					} else {
						delete(dirty, k)
					}
				}
			}
		}
		// every branch, last first; a delivery that is not answered rollbacked must leave the table and the
		// branch's undo log exactly as they were
		allOK := true
		partial := ""
		okBranch := map[int]bool{}
		for bi := len(run.Branches) - 1; bi >= 0; bi-- {
			tBefore := w.DumpTable(sc.Table)
			_, hadLog := run.undoLogOf(run.Branches[bi])
			if run.Rollback(bi) {
				okBranch[bi] = true
			} else {
				allOK = false
				_, hasLog := run.undoLogOf(run.Branches[bi])
				if tAfter := w.DumpTable(sc.Table); tAfter != tBefore || hadLog != hasLog {
					partial = fmt.Sprintf("branch %d answered failure but the table went from %s to %s (undo log %v -> %v)", bi+1, tBefore, tAfter, hadLog, hasLog)
				}
			}
		}
		run.Toks = append(run.Toks, "RB")
		run.Obs = append(run.Obs, run.snapshot())
		post := rowsByKey(w, sc)
		op := strings.Join(append(cs.headerToks(), run.Toks...), " ")
		c.Out.Case(cid, "C09", op, strings.Join(run.Obs, " "))
		class, detail := "", ""
		// The branch whose (last) item finds a foreign write on one of its rows must answer failure; that its
		// failed delivery changes nothing is checked above (`partial`).  Rows are NOT compared across the
		// whole sequence of deliveries: the harness rolls every branch back even after a failure (a
		// coordinator would stop), and an earlier branch may legitimately restore its own image of the row.
		for k, bi := range dirty {
			if okBranch[bi] {
				class, detail = "foreign_write_overwritten", fmt.Sprintf("row %s carries a foreign write (now %v, before the rollback %v) but branch %d answered rollbacked", k, post[k], pre[k], bi+1)
			}
		}
		if class == "" && len(dirty) > 0 && allOK {
			class, detail = "rollbacked_over_foreign_write", fmt.Sprintf("rows %v carry a foreign write but every branch answered rollbacked", dirty)
		}
		if class == "" && partial != "" {
			class, detail = "failed_rollback_left_partial_compensation", partial
		}
		if run.crash != "" {
			class, detail = "crash", run.crash
		}
		c.Out.Oracle(cid, class == "", class, detail+" | "+strings.Join(run.Obs, " "))
		c.Out.Tag(cid, fmt.Sprintf("nontrivial=%d", b2i(len(foreignKeys) > 0)))
		c.Out.Count(fmt.Sprintf("foreign.%d", len(foreignKeys)))
		c.Out.Count(fmt.Sprintf("dirty.%d", len(dirty)))
		w.Eng.Exec("DELETE FROM undo_log")
		w.Eng.DropTable(sc.Table)
	}
}

func keyVal(sc *ATSchema, col int, text string) ATVal {
	if sc.Cols[col].Typ == 'i' {
		var x int64
		fmt.Sscanf(text, "%d", &x)
		return ATVal{K: 'i', I: x}
	}
	return ATVal{K: 's', S: text}
}
