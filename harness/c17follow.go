package main

import (
	"context"
	"database/sql"
	"fmt"
	"strings"
	"time"

	"seata.apache.org/seata-go/pkg/protocol/branch"
	"seata.apache.org/seata-go/pkg/protocol/message"

	"verifharness/memdb"
)

// ---- (d) what a failed branch leaves behind on a connection the application keeps (db.Conn): the NEXT
// statement of the global transaction on that connection is a branch like any other — registered, between
// XA START and XA END, prepared, and finished by phase two. No statement reaches the database outside a branch,
// and no branch is rolled back twice.

func runC17Followup(c *Ctx) {
	w := GetATWorld()
	xa := w.OpenXA()
	n := 0
	for _, fault := range c17Faults {
		for _, explicit1 := range []bool{false, true} {
			for _, explicit2 := range []bool{false, true} {
				n++
				cid := fmt.Sprintf("c17-f%d", n)
				if !c.Want(cid) {
					continue
				}
				table := w.NewTableName("xaf")
				w.Eng.CreateTable(memdb.TableDef{Name: table, Cols: []memdb.Column{{Name: "id", Type: memdb.TBigInt}, {Name: "n", Type: memdb.TBigInt, Nullable: true}}, PK: []string{"id"}})
				w.Eng.InsertRows(table, memdb.Row{int64(1), int64(0)}, memdb.Row{int64(2), int64(0)})
				w.coord.ResetLog()
				w.Eng.ResetJournal()
				w.coord.Script = func(s *FakeSession, kind string, m message.RpcMessage) Action {
					if b, ok := m.Body.(message.BranchRegisterRequest); ok && b.BranchType == branch.BranchTypeXA && fault == "register" {
						fault = "register-done" // the first registration only
						return Action{Body: message.BranchRegisterResponse{AbstractTransactionResponse: failHead("refused")}}
					}
					return Action{}
				}
				switch fault {
				case "start":
					w.Eng.AddFault(memdb.Fault{Kind: "xa_start", Nth: 1})
				case "stmt":
					w.Eng.AddFault(memdb.Fault{Kind: "update", Table: table, Nth: 1})
				case "end":
					w.Eng.AddFault(memdb.Fault{Kind: "xa_end", Nth: 1})
				case "prepare":
					w.Eng.AddFault(memdb.Fault{Kind: "xa_prepare", Nth: 1})
				}
				// the case as a sequence of operations on the connection (model op `xaconn`): s:<fault> a statement,
				// b:<fault> BeginTx, c:<fault> tx.Commit, r tx.Rollback
				var mops []string
				fk := func(k int, kinds ...string) string {
					if k == 0 {
						for _, kd := range kinds {
							if fault == kd {
								return fault
							}
						}
					}
					return "none"
				}
				for k, explicit := range []bool{explicit1, explicit2} {
					if fault == "stmt" && explicit1 && explicit2 {
						mops = []string{"b:none", "s:stmt", "s:none", "c:none"}
						break
					}
					if !explicit {
						mops = append(mops, "s:"+fk(k, "register", "start", "stmt", "end", "prepare"))
						continue
					}
					if bf := fk(k, "register", "start"); bf != "none" {
						mops = append(mops, "b:"+bf)
						continue
					}
					mops = append(mops, "b:none", "s:"+fk(k, "stmt"))
					if fk(k, "stmt") != "none" {
						mops = append(mops, "r")
					} else {
						mops = append(mops, "c:"+fk(k, "end", "prepare"))
					}
				}
				var errs [2]error
				var xid string
				crash := safeCall(func() {
					xid, _ = InGlobalTx(cid, func(ctx context.Context) error {
						conn, cerr := xa.Conn(ctx)
						if cerr != nil {
							panic(cerr)
						}
						defer closeSoon(conn)
						run := func(k int, explicit bool) {
							q := "UPDATE " + table + " SET n = 7 WHERE id = ?"
							if explicit {
								tx, err := conn.BeginTx(ctx, nil)
								if err != nil {
									errs[k] = err
									return
								}
								if _, err = tx.ExecContext(ctx, q, k+1); err != nil {
									errs[k] = err
									tx.Rollback()
									return
								}
								errs[k] = tx.Commit()
								return
							}
							_, errs[k] = conn.ExecContext(ctx, q, k+1)
						}
						if fault == "stmt" && explicit1 && explicit2 {
							// ONE local transaction whose application carries on after the failed statement (the
							// database has undone that statement only) and commits
							tx, err := conn.BeginTx(ctx, nil)
							if err != nil {
								errs[0], errs[1] = err, err
								return nil
							}
							_, errs[0] = tx.ExecContext(ctx, "UPDATE "+table+" SET n = 7 WHERE id = ?", 1)
							w.Eng.ClearFaults()
							_, errs[1] = tx.ExecContext(ctx, "UPDATE "+table+" SET n = 7 WHERE id = ?", 2)
							if cerr := tx.Commit(); cerr != nil && errs[1] == nil {
								errs[1] = cerr
							}
							return nil
						}
						run(0, explicit1)
						w.Eng.ClearFaults()
						run(1, explicit2)
						return nil
					})
				})
				w.Eng.ClearFaults()
				w.coord.Script = nil
				if strings.HasPrefix(fault, "register") {
					fault = "register"
				}
				// phase two: commit whatever got prepared
				for _, b := range w.coord.RegisteredBranches(xid) {
					if w.Eng.XAState(fmt.Sprintf("%s-%d", xid, b.BranchID)) == "PREPARED" {
						w.coord.CommitBranch(w.coord.LastSession(), b, 3*time.Second)
					}
				}
				// ---- the trace of the connection
				var toks []string
				var inside []string
				inBranch := false
				bare := 0
				rollbacks := map[string]int{}
				for _, e := range w.Eng.Journal() {
					tok := map[string]string{"xa_start": "S", "xa_end": "E", "xa_prepare": "P", "xa_commit": "C", "xa_rollback": "R", "update": "x", "begin": "B", "commit": "c", "rollback": "r"}[e.Kind]
					if tok == "" {
						continue
					}
					if e.Err != "" {
						tok += "!"
					}
					toks = append(toks, tok)
					switch {
					case e.Kind == "xa_start" && e.Err == "":
						inBranch = true
					case e.Kind == "xa_end" || e.Kind == "xa_rollback" || e.Kind == "xa_commit":
						inBranch = false
					case e.Kind == "update" && !inBranch:
						bare++
					}
					if e.Kind == "update" {
						inside = append(inside, fmt.Sprint(b2i(inBranch)))
					}
					if e.Kind == "xa_rollback" {
						rollbacks[xaIDOf(e.SQL)]++
					}
				}
				final := w.DumpTable(table)
				flags := "-"
				if len(inside) > 0 {
					flags = strings.Join(inside, ",")
				}
				c.Out.Case(cid, "C17", "xaconn "+strings.Join(mops, " "), "inside="+flags)
				class, detail := "", ""
				fail := func(cl, d string) {
					if class == "" {
						class, detail = cl, d
					}
				}
				if crash != "" {
					fail("crash", crash)
				}
				if bare > 0 {
					fail("statement_outside_any_branch", fmt.Sprintf("%d UPDATE(s) reached the database outside XA START … XA END", bare))
				}
				for id, k := range rollbacks {
					if k > 1 {
						fail("branch_rolled_back_twice", fmt.Sprintf("XA ROLLBACK '%s' sent %d times", id, k))
					}
				}
				if errs[1] != nil {
					fail("next_statement_refused", errs[1].Error())
				}
				if errs[1] == nil && !strings.Contains(final, "i2,i7") {
					fail("next_statement_lost", "the second statement answered ok, its row is unchanged after the global commit: "+final)
				}
				if fault != "none" && errs[0] == nil {
					fail("failed_branch_reported_ok", "the first statement answered ok although its "+fault+" failed")
				}
				if fault != "none" && strings.Contains(final, "i1,i7") {
					fail("failed_branch_applied", "the row of the failed statement is changed: "+final)
				}
				if len(w.Eng.OpenTxns()) > 0 {
					fail("transaction_left_open", fmt.Sprint(w.Eng.OpenTxns()))
				}
				c.Out.Oracle(cid, class == "", class, fmt.Sprintf("%s | fault=%s explicit=%v,%v errs=%v,%v trace=%s final=%s", detail, fault, explicit1, explicit2, errs[0] != nil, errs[1] != nil, strings.Join(toks, " "), final))
				c.Out.Tag(cid, "nontrivial=1")
				c.Out.Count("followup." + fault)
				// leave nothing prepared or active behind
				for _, b := range w.coord.RegisteredBranches(xid) {
					id := fmt.Sprintf("%s-%d", xid, b.BranchID)
					if s := w.Eng.XAState(id); s == "PREPARED" {
						w.Eng.Exec("XA ROLLBACK '" + id + "'")
					}
				}
				xa.SetMaxIdleConns(0)
				xa.SetMaxIdleConns(2)
				w.Eng.DropTable(table)
			}
		}
	}
	_ = sql.ErrNoRows
}
