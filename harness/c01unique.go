package main

import (
	"context"
	"errors"
	"fmt"
	"time"

	"seata.apache.org/seata-go/pkg/protocol/branch"

	"verifharness/memdb"
)

// runC01UniqueCollisions: a table with a surrogate AUTO_INCREMENT key and a UNIQUE column: REPLACE, INSERT IGNORE
// and INSERT ... ON DUPLICATE KEY UPDATE that leave the key to the database and meet (or do not meet) a row through
// the unique value. Refused before running, or run and undone exactly by a global rollback (cases c01-u*).
func runC01UniqueCollisions(c *Ctx, w *ATWorld) {
	// (route: the statement for the model AT/InsertRoute.lean - its verb, and for every row whether it gives its
	// key `k`, the value of the other unique index `u`, both, or neither `-`)
	stmts := []struct{ name, sql, route string }{
		{"replace-collides", "REPLACE INTO %s (name, age) VALUES ('dup', 30)", "replace u"},
		{"replace-new", "REPLACE INTO %s (name, age) VALUES ('new', 30)", "replace u"},
		{"ignore-collides", "INSERT IGNORE INTO %s (name, age) VALUES ('dup', 30)", "ignore u"},
		{"ignore-new", "INSERT IGNORE INTO %s (name, age) VALUES ('new', 30)", "ignore u"},
		{"ignore-three-rows-middle-collides", "INSERT IGNORE INTO %s (name, age) VALUES ('a', 1), ('dup', 2), ('c', 3)", "ignore u u u"},
		{"replace-two-rows-one-collides", "REPLACE INTO %s (name, age) VALUES ('a', 1), ('dup', 2)", "replace u u"},
		{"upsert-collides", "INSERT INTO %s (name, age) VALUES ('dup', 30) ON DUPLICATE KEY UPDATE age = 31", "onduplicate u"},
		{"upsert-new", "INSERT INTO %s (name, age) VALUES ('new', 30) ON DUPLICATE KEY UPDATE age = 31", "onduplicate u"},
		{"upsert-null-key-and-given-key", "INSERT INTO %s (id, name, age) VALUES (NULL, 'x', 1), (2, 'other', 2) ON DUPLICATE KEY UPDATE age = 32", "onduplicate u ku"},
		{"replace-no-unique-value", "REPLACE INTO %s (age) VALUES (30)", "replace -"},
		{"replace-one-row-without-unique-value", "REPLACE INTO %s (name, age) VALUES ('a', 1), (NULL, 2)", "replace u -"},
		{"ignore-key-given", "INSERT IGNORE INTO %s (id, name, age) VALUES (3, 'z', 1)", "ignore ku"},
		{"upsert-no-unique-value", "INSERT INTO %s (age) VALUES (30) ON DUPLICATE KEY UPDATE age = 31", "onduplicate -"},
	}
	for i, s := range stmts {
		for _, ser := range []string{"json", "protobuf"} {
			cid := fmt.Sprintf("c01-u%d-%s", i, ser)
			if !c.Want(cid) {
				continue
			}
			w.SetUndoConfig(ser, "None", true, false)
			t := w.NewTableName("uq")
			if err := w.Eng.CreateTable(memdb.TableDef{Name: t, Cols: []memdb.Column{{Name: "id", Type: memdb.TBigInt, AutoInc: true}, {Name: "name", Type: memdb.TVarchar, Length: 16, Nullable: true}, {Name: "age", Type: memdb.TBigInt, Nullable: true}},
				PK: []string{"id"}, Unique: [][]string{{"name"}}}); err != nil {
				panic(err)
			}
			w.Eng.InsertRows(t, memdb.Row{int64(1), "first", int64(10)}, memdb.Row{int64(2), "other", int64(20)}, memdb.Row{int64(3), "dup", int64(25)})
			q := fmt.Sprintf(s.sql, t)
			before := w.DumpTable(t)
			w.coord.ResetLog()
			var execErr error
			var xid string
			crash := safeCall(func() {
				xid, _ = InGlobalTx(cid, func(ctx context.Context) error {
					_, execErr = w.DB.ExecContext(ctx, q)
					return errors.New("roll the global transaction back")
				})
			})
			mid := w.DumpTable(t)
			allOK := true
			brs := w.coord.RegisteredBranches(xid)
			for k := len(brs) - 1; k >= 0; k-- {
				st, ok, _ := w.coord.RollbackBranch(w.coord.LastSession(), brs[k], 5*time.Second)
				if !ok || st != branch.BranchStatusPhasetwoRollbacked {
					allOK = false
				}
			}
			final := w.DumpTable(t)
			class := ""
			switch {
			case crash != "":
				class = "crash"
			case execErr != nil && mid != before:
				class = "refused_statement_took_effect"
			case allOK && final != before:
				class = "rollbacked_but_not_restored"
			case !allOK:
				class = "rollback_reported_failed"
			}
			obs := "runs"
			if execErr != nil && mid == before {
				obs = "refused"
			}
			c.Out.Case(cid, "C01", "route "+s.route, obs)
			c.Out.Oracle(cid, class == "", class, fmt.Sprintf("%s | err=%v before=%s mid=%s final=%s crash=%s", q, execErr, before, mid, final, crash))
			c.Out.Tag(cid, "nontrivial=1")
			c.Out.Count("unique-collision." + s.name)
			w.Eng.Exec("DELETE FROM undo_log")
			w.Eng.DropTable(t)
		}
	}
}
