package main

import (
	"context"
	"fmt"

	"verifharness/memdb"
)

func init() { props["SMOKE16"] = runSmoke16 }

func runSmoke16(c *Ctx) {
	w := GetATWorld()
	w.SetUndoConfig("json", "None", true, false)
	t := w.NewTableName("acct")
	w.Eng.CreateTable(memdb.TableDef{Name: t, Cols: []memdb.Column{{Name: "id", Type: memdb.TBigInt}, {Name: "n", Type: memdb.TInt, Nullable: true}}, PK: []string{"id"}})
	w.Eng.InsertRows(t, memdb.Row{int64(1), int64(10)}, memdb.Row{int64(2), int64(20)})
	for _, q := range []string{
		"UPDATE " + t + " SET n = 5 WHERE id = 1; DELETE FROM " + t + " WHERE id = -1",
		"UPDATE " + t + " SET n = 5 WHERE id = 1; UPDATE " + t + " SET n = 6 WHERE id = 2",
		"DELETE FROM " + t + " WHERE id = -1; DELETE FROM " + t + " WHERE id = -2",
		"CREATE TABLE IF NOT EXISTS " + t + "_aux (id BIGINT NOT NULL, PRIMARY KEY (id))",
		"DROP TABLE IF EXISTS " + t + "_aux",
	} {
		pn := safeCall(func() {
			InGlobalTx("s16", func(ctx context.Context) error {
				r, err := w.DB.ExecContext(ctx, q)
				fmt.Println("Q", q, "->", r, err)
				return nil
			})
		})
		fmt.Println("   panic:", pn, "table", w.DumpTable(t))
	}
}
