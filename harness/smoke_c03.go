package main

import (
	"context"
	"fmt"

	"seata.apache.org/seata-go/pkg/protocol/message"

	"verifharness/memdb"
)

func init() { props["SMOKE03"] = runSmoke03 }

func runSmoke03(c *Ctx) {
	w := GetATWorld()
	w.SetUndoConfig("json", "None", true, false)
	t := w.NewTableName("acct")
	w.Eng.CreateTable(memdb.TableDef{Name: t, Cols: []memdb.Column{{Name: "id", Type: memdb.TBigInt}, {Name: "name", Type: memdb.TVarchar, Length: 32, Nullable: true}, {Name: "n", Type: memdb.TInt, Nullable: true}}, PK: []string{"id"}})
	w.Eng.InsertRows(t, memdb.Row{int64(1), "a", int64(10)}, memdb.Row{int64(2), "b", int64(20)})
	for _, mode := range []string{"auto-lockable", "auto-conflict", "auto-norows", "tx-lockable", "tx-conflict", "tx-norows"} {
		w.Eng.ResetJournal()
		w.coord.ResetLog()
		lockable := mode == "auto-lockable" || mode == "tx-lockable"
		w.coord.Script = func(s *FakeSession, kind string, m message.RpcMessage) Action {
			if _, ok := m.Body.(message.GlobalLockQueryRequest); ok {
				return Action{Body: message.GlobalLockQueryResponse{AbstractTransactionResponse: okHead(), Lockable: lockable}}
			}
			return Action{}
		}
		id := 1
		if mode == "auto-norows" || mode == "tx-norows" {
			id = 99
		}
		pn := safeCall(func() {
			InGlobalTx("smoke03", func(ctx context.Context) error {
				q := "SELECT id, n FROM " + t + " WHERE id = ? FOR UPDATE"
				if mode[:2] == "tx" {
					tx, err := w.DB.BeginTx(ctx, nil)
					if err != nil {
						fmt.Println(mode, "begin err", err)
						return nil
					}
					rows, err := tx.QueryContext(ctx, q, id)
					fmt.Println(mode, "query err:", err)
					if err == nil {
						for rows.Next() {
							var a, b int64
							rows.Scan(&a, &b)
							fmt.Println(mode, "row", a, b)
						}
						rows.Close()
					}
					fmt.Println(mode, "locks after query", w.Eng.Locks(), "open", w.Eng.OpenTxns())
					fmt.Println(mode, "commit:", tx.Commit())
				} else {
					rows, err := w.DB.QueryContext(ctx, q, id)
					fmt.Println(mode, "query err:", err)
					if err == nil {
						for rows.Next() {
							var a, b int64
							rows.Scan(&a, &b)
							fmt.Println(mode, "row", a, b)
						}
						rows.Close()
					}
				}
				return nil
			})
		})
		w.coord.Script = nil
		fmt.Println(mode, "panic:", pn, "locks", w.Eng.Locks(), "open", w.Eng.OpenTxns())
		for _, e := range w.Eng.Journal() {
			fmt.Println("  J", e.Conn, e.Kind, e.Table, e.SQL, e.Args, e.Err)
		}
		for _, l := range w.coord.Snapshot() {
			fmt.Println("  C", l.Kind)
		}
	}
}
