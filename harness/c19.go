package main

import (
	"os"
	"sort"
	"context"
	"fmt"
	rconfig "seata.apache.org/seata-go/pkg/remoting/config"
	sgetty "seata.apache.org/seata-go/pkg/remoting/getty"
	"strings"
	"sync"
	"time"

	getty "github.com/apache/dubbo-getty"

	"seata.apache.org/seata-go/pkg/protocol/branch"
	"seata.apache.org/seata-go/pkg/protocol/message"
	"seata.apache.org/seata-go/pkg/remoting/loadbalance"
	"seata.apache.org/seata-go/pkg/remoting/rpc"
	"seata.apache.org/seata-go/pkg/rm/tcc"
	"seata.apache.org/seata-go/pkg/tm"
)

func init() { props["C19"] = runC19 }

var c19Policies = []string{"RandomLoadBalance", "XID", "RoundRobinLoadBalance", "LeastActiveLoadBalance", "ConsistentHashLoadBalance", "bogus"}

// simpleAction is a minimal TCC action used to have a resource registered with the coordinator
type simpleAction struct {
	name      string
	mu        sync.Mutex
	commits   []string
	rollbacks []string
}

func (a *simpleAction) Prepare(ctx context.Context, params interface{}) (bool, error) {
	return true, nil
}
func (a *simpleAction) Commit(ctx context.Context, bac *tm.BusinessActionContext) (bool, error) {
	a.mu.Lock()
	a.commits = append(a.commits, fmt.Sprintf("%s/%d", bac.Xid, bac.BranchId))
	a.mu.Unlock()
	return true, nil
}
func (a *simpleAction) Rollback(ctx context.Context, bac *tm.BusinessActionContext) (bool, error) {
	a.mu.Lock()
	a.rollbacks = append(a.rollbacks, fmt.Sprintf("%s/%d", bac.Xid, bac.BranchId))
	a.mu.Unlock()
	return true, nil
}
func (a *simpleAction) GetActionName() string { return a.name }

func runC19(c *Ctx) {
	runC19Waiting(c) // first: it needs the session registry in the state a fresh client leaves it in
	rng := NewRng(c.Seed)
	nHist := c.Budget(500, 30000)
	for i := 0; i < nHist; i++ {
		r := rng.Fork()
		cid := fmt.Sprintf("hist-%d", i)
		if !c.Want(cid) {
			continue
		}
		loadbalance.VerifResetState()
		sessions := &sync.Map{}
		byID := map[int]*FakeSession{}
		registered := map[int]bool{}
		var ops []string
		var chosen []string
		nAddr := 1 + r.Intn(3)
		addrs := make([]string, nAddr)
		for k := range addrs {
			addrs[k] = fmt.Sprintf("10.%d.%d.%d:8091", (i>>8)&255, i&255, k+1)
			if i%5 == 4 {
				// servers on one host whose addresses are textual prefixes of one another (809, 8091, 80910)
				addrs[k] = fmt.Sprintf("10.%d.%d.1:%s", (i>>8)&255, i&255, []string{"8091", "809", "80910"}[k])
			}
		}
		nextID := 0
		policy := c19Policies[r.Intn(len(c19Policies))]
		if r.Chance(30) {
			policy = "" // mixed policies in one history
		}
		ok := true
		class, detail := "", ""
		nOps := 3 + r.Intn(12)
		selects := 0
		// a third of the histories start with the "closed twin" pattern: a session to address 0, one to
		// address 1, the first is lost, a new one to address 0 is opened (both twins registered), then the
		// xid of address 0 is routed (the map may enumerate the closed twin first)
		twin := -1
		if nAddr >= 2 && r.Chance(33) {
			twin = 0
		}
		for k := 0; k < nOps || selects == 0; k++ {
			x := r.Intn(10)
			forcedAddr, forcedXid, forcedClose := "", "", 0
			if twin >= 0 && twin < 5 {
				switch twin {
				case 0:
					x, forcedAddr = 0, addrs[0]
				case 1:
					x, forcedAddr = 0, addrs[1]
				case 2:
					x, forcedClose = 3, 1
				case 3:
					x, forcedAddr = 0, addrs[0]
				case 4:
					x, forcedXid = 9, fmt.Sprintf("%s:%d", addrs[0], r.Intn(100000))
				}
				twin++
			}
			switch {
			case x < 3 || nextID == 0:
				nextID++
				a0 := addrs[r.Intn(nAddr)]
				if forcedAddr != "" {
					a0 = forcedAddr
				}
				s := &FakeSession{id: nextID, addr: a0, attrs: map[interface{}]interface{}{}}
				byID[nextID] = s
				registered[nextID] = true
				sessions.Store(s, true)
				ops = append(ops, fmt.Sprintf("o@%d@%s", nextID, s.addr))
			case x == 3:
				id := 1 + r.Intn(nextID)
				if forcedClose != 0 {
					id = forcedClose
				}
				byID[id].Close()
				ops = append(ops, fmt.Sprintf("c@%d", id))
			case x == 4:
				id := 1 + r.Intn(nextID)
				if registered[id] {
					sessions.Delete(byID[id])
					byID[id].Close()
					registered[id] = false
					ops = append(ops, fmt.Sprintf("r@%d", id))
				}
			case x == 5:
				a := addrs[r.Intn(nAddr)]
				n := 1 + r.Intn(3)
				cur := int(rpc.GetStatus(a).GetActive())
				for j := cur; j < n; j++ {
					rpc.BeginCount(a)
				}
				if n >= cur {
					ops = append(ops, fmt.Sprintf("b@%s@%d", a, n))
				}
			default:
				p := policy
				if p == "" {
					p = c19Policies[r.Intn(len(c19Policies))]
				}
				var xid string
				pick := r.Intn(5)
				if forcedXid != "" {
					p, pick = "XID", -1
					xid = forcedXid
				}
				switch pick {
				case -1:
				case 0:
					xid = fmt.Sprintf("%s:%d", addrs[r.Intn(nAddr)], r.Intn(100000))
				case 1:
					xid = fmt.Sprintf("10.9.9.9:8091:%d", r.Intn(1000))
				case 2:
					xid = fmt.Sprintf("%s:1:2", addrs[r.Intn(nAddr)]) // four parts
				case 3:
					xid = fmt.Sprintf("tx%d", r.Intn(1000))
				default:
					xid = fmt.Sprintf("%s:%d", addrs[0], r.Intn(10))
				}
				selects++
				ops = append(ops, fmt.Sprintf("s@%s@%s", p, xid))
				var res getty.Session
				pn := safeCall(func() { res = loadbalance.Select(p, sessions, xid) })
				if pn != "" {
					chosen = append(chosen, "crash")
					ok, class, detail = false, "crash", pn
					continue
				}
				anyOpen := false
				affinity := false
				parts := strings.Split(xid, ":")
				for id, s := range byID {
					if registered[id] && !s.IsClosed() {
						anyOpen = true
						if len(parts) == 3 && s.addr == parts[0]+":"+parts[1] {
							affinity = true
						}
					}
				}
				if res == nil {
					chosen = append(chosen, "nil")
					if anyOpen && ok {
						ok, class, detail = false, "nil_although_open", fmt.Sprintf("policy %s returned nil with an open session registered", p)
					}
					continue
				}
				fs := res.(*FakeSession)
				chosen = append(chosen, fmt.Sprint(fs.id))
				if ok && fs.IsClosed() {
					ok, class, detail = false, "closed_session_chosen", fmt.Sprintf("policy %s returned closed session %d", p, fs.id)
				}
				if ok && !registered[fs.id] {
					ok, class, detail = false, "unregistered_session_chosen", fmt.Sprintf("policy %s returned released session %d", p, fs.id)
				}
				if ok && p == "XID" && affinity && fs.addr != parts[0]+":"+parts[1] {
					ok, class, detail = false, "xid_affinity", fmt.Sprintf("xid %s went to %s", xid, fs.addr)
				}
				// sweep bookkeeping: selections delete closed sessions from the map
				sessions.Range(func(k, v interface{}) bool { return true })
			}
		}
		// sessions swept from the map by a selection are no longer registered
		c.Out.Case(cid, "C19", "hist "+strings.Join(ops, " "), strings.Join(chosen, " "))
		c.Out.Oracle(cid, ok, class, detail)
		c.Out.Tag(cid, fmt.Sprintf("nontrivial=%d member=1", b2i(nextID > 1)))
		if policy == "" {
			c.Out.Count("policy.mixed")
		} else {
			c.Out.Count("policy." + policy)
		}
	}
	runC19Reconnect(c)
	runC19Route(c)
}

func b2i(b bool) int {
	if b {
		return 1
	}
	return 0
}

// reconnection through the real client: lose the coordinator session at a given point, open a new
// one, observe what the client announces on it and whether both directions work again.
func runC19Reconnect(c *Ctx) {
	coord := Boot()
	coord.Script = nil
	tm.InitTm(tm.TmConfig{CommitRetryCount: 1, RollbackRetryCount: 1, DefaultGlobalTransactionTimeout: 60 * time.Second})
	act := &simpleAction{name: "c19-action"}
	proxy, err := tcc.NewTCCServiceProxy(act)
	if err != nil || proxy == nil {
		c.Out.Case("reconnect-setup", "C19", "reconnect 0 idle", "setup-failed "+fmt.Sprint(err))
		c.Out.Oracle("reconnect-setup", false, "setup", fmt.Sprint(err))
		return
	}
	points := []string{"idle", "in-flight", "between-phases"}
	rounds := 2
	if c.Tier == "thorough" {
		rounds = 4
	}
	n := 0
	resources := []string{act.name}
	for round := 0; round < rounds; round++ {
		if round > 0 {
			// one more resource registered before the next losses: every one of them is to be announced again
			extra := &simpleAction{name: fmt.Sprintf("c19-extra%d", round)}
			if _, e := tcc.NewTCCServiceProxy(extra); e == nil {
				resources = append(resources, extra.name)
			}
		}
		for _, point := range points {
			n++
			cid := fmt.Sprintf("reconnect-%d", n)
			if !c.Want(cid) {
				continue
			}
			old := coord.Sessions()
			cur := old[len(old)-1]
			coord.ResetLog()
			var xid string
			var branchID int64
			switch point {
			case "in-flight":
				// a begin whose reply never comes while the connection drops
				coord.Script = func(s *FakeSession, kind string, m message.RpcMessage) Action {
					if kind == "GlobalBegin" {
						return Action{Close: true}
					}
					return Action{}
				}
				done := make(chan struct{})
				go func() {
					defer close(done)
					safeCall(func() {
						ctx, cancel := context.WithTimeout(context.Background(), 200*time.Millisecond)
						defer cancel()
						tm.WithGlobalTx(ctx, &tm.GtxConfig{Name: cid + "-lost"}, func(context.Context) error { return nil })
					})
				}()
				coord.WaitFor(2*time.Second, func(l []LoggedReq) bool { return kindsOf(l, cid+"-lost") != "" })
				coord.Script = nil
			case "between-phases":
				// phase one of a TCC branch on the old session, phase two after the reconnect
				tm.WithGlobalTx(context.Background(), &tm.GtxConfig{Name: cid + "-p1"}, func(ctx context.Context) error {
					xid = tm.GetXID(ctx)
					_, e := proxy.Prepare(ctx, nil)
					if bac := tm.GetBusinessActionContext(ctx); bac != nil {
						branchID = bac.BranchId
					}
					return e
				})
				cur.CloseFromPeer()
			default:
				cur.CloseFromPeer()
			}
			if !cur.IsClosed() {
				cur.CloseFromPeer()
			}
			// every second case: a session to ANOTHER coordinator is open as well when the lost one comes back — the
			// announcements for the new session must go to the new session, not wherever the load balancer points
			var other *FakeSession
			if n%2 == 0 {
				other = coord.OpenSessionAt("127.0.0.9:8091")
				coord.WaitFor(300*time.Millisecond, func(l []LoggedReq) bool {
					k := 0
					for _, e := range l {
						if e.Session == other.id && e.Kind == "RegisterRM" {
							k++
						}
					}
					return k >= len(resources)
				})
				c.Out.Count("reconnect.second-coordinator")
			}
			ns := coord.OpenSession()
			// what does the client announce on the new session?
			coord.WaitFor(500*time.Millisecond, func(l []LoggedReq) bool {
				tmSeen, rmSeen := false, false
				for _, e := range l {
					if e.Session == ns.id && e.Kind == "RegisterTM" {
						tmSeen = true
					}
					if e.Session == ns.id && e.Kind == "RegisterRM" {
						rmSeen = true
					}
				}
				return tmSeen && rmSeen
			})
			coord.WaitFor(300*time.Millisecond, func(l []LoggedReq) bool {
				k := 0
				for _, e := range l {
					if e.Session == ns.id && e.Kind == "RegisterRM" {
						k++
					}
				}
				return k >= len(resources)
			})
			var ann, rms []string
			for _, e := range coord.Snapshot() {
				if e.Session != ns.id {
					continue
				}
				if e.Kind == "RegisterTM" {
					ann = append(ann, "TM")
				}
				if e.Kind == "RegisterRM" {
					// the resources come out of a sync.Map: their order is not a function of the state
					rms = append(rms, "RM("+e.Xid+")")
				}
			}
			sort.Strings(rms)
			ann = append(ann, rms...)
			missing := ""
			for _, r := range resources {
				found := false
				for _, a := range rms {
					if a == "RM("+r+")" {
						found = true
					}
				}
				if !found {
					missing = r
					break
				}
			}
			rmAnnounced := missing == ""
			// direction 1: a new global transaction can begin (and end) on the new session
			beginOK := "ok"
			if e := tm.WithGlobalTx(context.Background(), &tm.GtxConfig{Name: cid + "-after"}, func(context.Context) error { return nil }); e != nil {
				beginOK = "failed"
			}
			// direction 2: a phase-two request for the earlier branch reaches the action and is answered
			phase2 := "n/a"
			if point == "between-phases" {
				before := len(act.commits)
				coord.SendBranchCommit(ns, 777000+int32(n), xid, branchID, branch.BranchTypeTCC, act.name, []byte(`{"actionContext":{}}`))
				okResp := coord.WaitFor(2*time.Second, func(l []LoggedReq) bool {
					for _, e := range l {
						if e.Kind == "BranchCommitResponse" && e.Msg.ID == 777000+int32(n) {
							return true
						}
					}
					return false
				})
				act.mu.Lock()
				ran := len(act.commits) > before
				act.mu.Unlock()
				if okResp && ran {
					phase2 = "ok"
				} else {
					phase2 = "failed"
				}
			}
			obs := fmt.Sprintf("announce=%s begin=%s phase2=%s", strings.Join(ann, ","), beginOK, phase2)
			c.Out.Case(cid, "C19", "reconnect "+strings.Join(resources, ",")+" "+point, obs)
			switch {
			case beginOK != "ok" || phase2 == "failed" || len(ann) == 0:
				c.Out.Oracle(cid, false, "reconnect_broken", obs)
			case !rmAnnounced:
				c.Out.Oracle(cid, false, "rm_not_reannounced", "resource "+missing+" not announced on the new session | "+obs)
			default:
				c.Out.Oracle(cid, true, "", "")
			}
			c.Out.Tag(cid, "nontrivial=1")
			c.Out.Count("reconnect." + point)
			if other != nil && !other.IsClosed() {
				other.CloseFromPeer()
			}
		}
	}
	coord.ResetLog()
	runC19LateResource(c, coord)
}

// a resource whose FIRST announcement did not get through (the coordinator could not be reached when the
// application created it): it is a resource of this client all the same, announced on the next session, and
// phase two for its branches reaches it
func runC19LateResource(c *Ctx, coord *Coord) {
	cid := "reconnect-late"
	if !c.Want(cid) {
		return
	}
	refuse := true
	coord.Script = func(s *FakeSession, kind string, m message.RpcMessage) Action {
		if b, ok := m.Body.(message.RegisterRMRequest); ok && strings.Contains(b.ResourceIds, "c19-late") && refuse {
			refuse = false
			return Action{TransportE: true}
		}
		return Action{}
	}
	late := &simpleAction{name: "c19-late"}
	var proxy *tcc.TCCServiceProxy
	var perr error
	crash := safeCall(func() { proxy, perr = tcc.NewTCCServiceProxy(late) })
	coord.Script = nil
	// the connection is lost and comes back
	for _, s := range coord.Sessions() {
		if !s.IsClosed() {
			s.CloseFromPeer()
		}
	}
	coord.ResetLog()
	ns := coord.OpenSession()
	announced := coord.WaitFor(time.Second, func(l []LoggedReq) bool {
		for _, e := range l {
			if e.Session == ns.id && e.Kind == "RegisterRM" && strings.Contains(e.Xid, "c19-late") {
				return true
			}
		}
		return false
	})
	// a branch of the resource, and phase two for it
	phase2 := "n/a"
	if proxy != nil {
		var xid string
		var branchID int64
		tm.WithGlobalTx(context.Background(), &tm.GtxConfig{Name: cid}, func(ctx context.Context) error {
			xid = tm.GetXID(ctx)
			_, e := proxy.Prepare(ctx, nil)
			if bac := tm.GetBusinessActionContext(ctx); bac != nil {
				branchID = bac.BranchId
			}
			return e
		})
		coord.SendBranchCommit(ns, 778001, xid, branchID, branch.BranchTypeTCC, late.name, []byte(`{"actionContext":{}}`))
		coord.WaitFor(2*time.Second, func(l []LoggedReq) bool {
			for _, e := range l {
				if e.Kind == "BranchCommitResponse" && e.Msg.ID == 778001 {
					return true
				}
			}
			return false
		})
		late.mu.Lock()
		if len(late.commits) > 0 {
			phase2 = "ok"
		} else {
			phase2 = "failed"
		}
		late.mu.Unlock()
	}
	obs := fmt.Sprintf("created=%v err=%v announced=%v phase2=%s", proxy != nil, perr != nil, announced, phase2)
	c.Out.Case(cid, "C19", "skip", "skip")
	switch {
	case crash != "":
		c.Out.Oracle(cid, false, "crash", crash)
	case proxy == nil:
		// the application got no proxy: nothing it could have prepared a branch with
		c.Out.Oracle(cid, true, "", obs)
	case !announced:
		c.Out.Oracle(cid, false, "rm_not_reannounced", "resource c19-late (first announcement lost) not announced on the new session | "+obs)
	case phase2 != "ok":
		c.Out.Oracle(cid, false, "reconnect_broken", obs)
	default:
		c.Out.Oracle(cid, true, "", obs)
	}
	c.Out.Tag(cid, "nontrivial=1")
	c.Out.Count("reconnect.late-resource")
	coord.ResetLog()
}

// ---- the XID policy through the real client: with sessions open to several coordinators, a request that
// carries an xid ip:port:id is WRITTEN to the session connected to ip:port (SendSyncRequest -> selectSession
// -> loadbalance.Select), not only chosen so when the policy function is called by hand

func runC19Route(c *Ctx) {
	coord := Boot()
	coord.Script = nil
	cfg := rconfig.GetSeataConfig()
	if cfg == nil {
		return
	}
	savedLB := cfg.LoadBalanceType
	cfg.LoadBalanceType = "XID"
	defer func() { cfg.LoadBalanceType = savedLB }()
	addrs := []string{"127.0.0.1:8091", "10.1.0.2:8091", "10.1.0.3:8091"}
	open := map[string]*FakeSession{}
	for _, s := range coord.Sessions() {
		if !s.IsClosed() {
			open[s.addr] = s
		}
	}
	coord.ResetLog()
	var opened []*FakeSession
	for _, a := range addrs {
		if open[a] == nil {
			open[a] = coord.OpenSessionAt(a)
			opened = append(opened, open[a])
		}
	}
	time.Sleep(60 * time.Millisecond)
	// every session that has just been opened hears the client announce itself as transaction manager — on
	// that session, not on whichever one the load balancer picks
	if c.Want("route-announce") {
		heard := map[int]bool{}
		for _, l := range coord.Snapshot() {
			if _, ok := l.Msg.Body.(message.RegisterTMRequest); ok {
				heard[l.Session] = true
			}
		}
		missing := []string{}
		for _, s := range opened {
			if !heard[s.id] {
				missing = append(missing, s.addr)
			}
		}
		c.Out.Case("route-announce", "C19", "skip", "skip")
		c.Out.Oracle("route-announce", len(missing) == 0, "new_session_not_announced_on", fmt.Sprintf("sessions opened to %v; no RegisterTMRequest was written to %v", addrs[1:], missing))
		c.Out.Tag("route-announce", "nontrivial=1")
	}
	defer func() {
		for _, a := range addrs[1:] {
			open[a].CloseFromPeer()
		}
	}()
	time.Sleep(30 * time.Millisecond)
	kinds := []string{"GlobalCommit", "GlobalRollback", "GlobalStatus", "BranchRegister", "BranchReport", "GlobalLockQuery"}
	n := 0
	rounds := c.Budget(2, 20)
	for round := 0; round < rounds; round++ {
		for _, kind := range kinds {
			for _, a := range addrs {
				n++
				cid := fmt.Sprintf("route-%d", n)
				if !c.Want(cid) {
					continue
				}
				xid := fmt.Sprintf("%s:%d", a, 880000+n)
				var body interface{}
				switch kind {
				case "GlobalCommit":
					body = message.GlobalCommitRequest{AbstractGlobalEndRequest: message.AbstractGlobalEndRequest{Xid: xid}}
				case "GlobalRollback":
					body = message.GlobalRollbackRequest{AbstractGlobalEndRequest: message.AbstractGlobalEndRequest{Xid: xid}}
				case "GlobalStatus":
					body = message.GlobalStatusRequest{AbstractGlobalEndRequest: message.AbstractGlobalEndRequest{Xid: xid}}
				case "BranchRegister":
					body = message.BranchRegisterRequest{Xid: xid, ResourceId: "res", LockKey: "t:1", BranchType: branch.BranchTypeAT}
				case "BranchReport":
					body = message.BranchReportRequest{Xid: xid, BranchId: 5, Status: branch.BranchStatusPhaseoneDone, BranchType: branch.BranchTypeAT}
				default:
					body = message.GlobalLockQueryRequest{BranchRegisterRequest: message.BranchRegisterRequest{Xid: xid, ResourceId: "res", LockKey: "t:1", BranchType: branch.BranchTypeAT}}
				}
				coord.ResetLog()
				crash := safeCall(func() { sgetty.GetGettyRemotingClient().SendSyncRequest(body) })
				got := "nowhere"
				for _, l := range coord.Snapshot() {
					if l.Xid == xid {
						for addr, s := range open {
							if s.id == l.Session {
								got = addr
							}
						}
					}
				}
				c.Out.Case(cid, "C19", "skip", "skip")
				c.Out.Oracle(cid, crash == "" && got == a, "xid_affinity_through_the_client", fmt.Sprintf("%s for xid %s was written to the session connected to %s (sessions open to %v) crash=%s", kind, xid, got, addrs, crash))
				c.Out.Tag(cid, "nontrivial=1")
				c.Out.Count("route." + kind)
			}
		}
	}
}

// ---- a request issued while no coordinator is connected waits for one to come back. Connections that went
// away again before the client could use them appear in the registry meanwhile: the request must be written
// to the first OPEN session, never to one of those.

func runC19Waiting(c *Ctx) {
	if c.Only != "" && !strings.HasPrefix(c.Only, "wait") {
		return
	}
	coord := Boot()
	settle := func() {
		// let the announcements on the open sessions finish: a session closed under them is released twice
		// (by OnClose and by the failing announcement), which throws the session counter off
		time.Sleep(100 * time.Millisecond)
		for _, s := range coord.Sessions() {
			if !s.IsClosed() {
				s.CloseFromPeer()
			}
		}
	}
	settle()
	for n := 1; n <= 2; n++ {
		cid := fmt.Sprintf("wait-%d", n)
		if !c.Want(cid) {
			continue
		}
		open0, closed0, counter0 := sgetty.VerifSessionBook()
		done := make(chan struct{})
		go func() {
			defer close(done)
			time.Sleep(150 * time.Millisecond)
			for k := 0; k < n; k++ {
				// registered, and already gone when the waiting request looks at it
				dead := &FakeSession{coord: coord, id: 7000 + n*10 + k, addr: coord.Addr, attrs: map[interface{}]interface{}{}}
				dead.Close()
				sgetty.VerifRegisterSilently(dead)
				if os.Getenv("VERIF_DEBUG") != "" {
					o, cl, cn := sgetty.VerifSessionBook()
					fmt.Fprintln(os.Stderr, "DEBUG book after dead", o, cl, cn)
				}
			}
			time.Sleep(250 * time.Millisecond)
			if os.Getenv("VERIF_DEBUG") != "" {
				o, cl, cn := sgetty.VerifSessionBook()
				fmt.Fprintln(os.Stderr, "DEBUG book before C", o, cl, cn)
			}
			coord.OpenSession()
		}()
		var got getty.Session
		crash := safeCall(func() {
			got = sgetty.VerifSelect(message.RpcMessage{Body: message.GlobalBeginRequest{TransactionName: cid}})
		})
		<-done
		if os.Getenv("VERIF_DEBUG") != "" {
			o, cl, cn := sgetty.VerifSessionBook()
			fmt.Fprintln(os.Stderr, "DEBUG book after", cid, o, cl, cn)
		}
		obs := "nil"
		if got != nil {
			obs = "open"
			if got.IsClosed() {
				obs = "closed"
			}
		}
		c.Out.Case(cid, "C19", fmt.Sprintf("wait %d", n), obs)
		switch {
		case crash != "":
			c.Out.Oracle(cid, false, "crash", crash)
		case open0 != 0 || counter0 != 0:
			c.Out.Oracle(cid, false, "setup", fmt.Sprintf("registry not empty before the case: open=%d closed=%d counter=%d", open0, closed0, counter0))
		case obs == "closed":
			c.Out.Oracle(cid, false, "closed_session_chosen", "the waiting request was handed a session that is closed, although an open one came back")
		case obs == "nil":
			c.Out.Oracle(cid, false, "no_session_although_one_came_back", "")
		default:
			c.Out.Oracle(cid, true, "", "")
		}
		c.Out.Tag(cid, "nontrivial=1")
		c.Out.Count("waiting-request")
		settle()
	}
	// a request that waits is routed like any other: connections to two coordinators come back during the wait,
	// the request belongs to a transaction of the second (several rounds: the registry is a map)
	for k := 1; k <= 8; k++ {
		cid := fmt.Sprintf("waitx-%d", k)
		if !c.Want(cid) {
			continue
		}
		open0, _, counter0 := sgetty.VerifSessionBook()
		a := &FakeSession{coord: coord, id: 7200 + 2*k, addr: "10.7.0.1:8091", attrs: map[interface{}]interface{}{}}
		b := &FakeSession{coord: coord, id: 7201 + 2*k, addr: "10.7.0.2:8091", attrs: map[interface{}]interface{}{}}
		done := make(chan struct{})
		go func() {
			defer close(done)
			time.Sleep(150 * time.Millisecond)
			if k%2 == 0 {
				sgetty.VerifRegisterSilently(b)
				sgetty.VerifRegisterSilently(a)
			} else {
				sgetty.VerifRegisterSilently(a)
				sgetty.VerifRegisterSilently(b)
			}
		}()
		var got getty.Session
		xid := "10.7.0.2:8091:77"
		crash := safeCall(func() {
			got = sgetty.VerifSelect(message.RpcMessage{Body: message.GlobalCommitRequest{AbstractGlobalEndRequest: message.AbstractGlobalEndRequest{Xid: xid}}})
		})
		<-done
		obs := "nil"
		if fs, ok := got.(*FakeSession); ok && fs != nil {
			obs = fmt.Sprint(fs.id)
		}
		c.Out.Case(cid, "C19", fmt.Sprintf("waitx XID %s - %d@%s@o,%d@%s@o", xid, a.id, a.addr, b.id, b.addr), obs)
		switch {
		case crash != "":
			c.Out.Oracle(cid, false, "crash", crash)
		case open0 != 0 || counter0 != 0:
			c.Out.Oracle(cid, false, "setup", fmt.Sprintf("registry not empty before the case: open=%d counter=%d", open0, counter0))
		case got != nil && got.RemoteAddr() != "10.7.0.2:8091":
			c.Out.Oracle(cid, false, "waiting_request_not_routed_by_its_xid", fmt.Sprintf("the request of %s was handed the session to %s although the one to its coordinator was open", xid, got.RemoteAddr()))
		default:
			c.Out.Oracle(cid, true, "", "")
		}
		c.Out.Tag(cid, "nontrivial=1 member=1")
		c.Out.Count("waiting-request.xid")
		// both go away again (the registry is empty for the next round)
		a.CloseFromPeer()
		b.CloseFromPeer()
		settle()
	}
	coord.OpenSession()
}
