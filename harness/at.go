package main

// AT/XA harness kit: one in-memory database per process with the real AT and XA proxy drivers
// registered over it (the table-meta cache of the repository is process-global per DB type, so one
// world per process), the real client booted against the fake coordinator.

import (
	"context"
	"database/sql"
	"flag"
	"fmt"
	"sort"
	"strings"
	"sync"
	"time"

	sql2 "seata.apache.org/seata-go/pkg/datasource/sql"
	"seata.apache.org/seata-go/pkg/datasource/sql/undo"
	"seata.apache.org/seata-go/pkg/protocol/branch"
	"seata.apache.org/seata-go/pkg/protocol/message"
	"seata.apache.org/seata-go/pkg/tm"

	"verifharness/memdb"
)

type ATWorld struct {
	Eng        *memdb.Engine
	DB         *sql.DB // through the AT proxy
	XA         *sql.DB // through the XA proxy
	Bare       *sql.DB // straight to the engine
	ResourceID string
	DBName     string
	coord      *Coord
	tableSeq   int
	nameFrom   *ATWorld // the world whose counter names this world's tables (nil: its own)
	Tag        string   // "" (the first data source), "b", "c"
}

var (
	atWorld     *ATWorld
	atWorldOnce sync.Once
)

const atDSN = "root:pw@tcp(127.0.0.1:3306)/verifdb?multiStatements=true"

// GetATWorld boots the client and opens the proxied handles (once per process).
func GetATWorld() *ATWorld {
	atWorldOnce.Do(func() {
		coord := Boot()
		eng := memdb.New("verifdb")
		eng.CreateUndoLogTable()
		sql2.VerifRegisterDrivers("verif-at", "verif-xa", eng.Driver())
		// XA connection settings are only reachable through flags
		fs := flag.NewFlagSet("xa", flag.ContinueOnError)
		xaCfg := sql2.XAConfig{}
		xaCfg.RegisterFlagsWithPrefix("xa", fs)
		fs.Parse(nil)
		sql2.InitXA(xaCfg)
		db, err := sql.Open("verif-at", atDSN)
		if err != nil {
			panic(err)
		}
		if err = db.Ping(); err != nil {
			panic(fmt.Sprintf("at ping: %v", err))
		}
		w := &ATWorld{Eng: eng, DB: db, Bare: sql.OpenDB(eng.Connector()), coord: coord, DBName: "verifdb",
			ResourceID: "root:pw@tcp(127.0.0.1:3306)/verifdb"}
		atWorld = w
	})
	return atWorld
}

var (
	atWorldB, atWorldC         *ATWorld
	atWorldBOnce, atWorldCOnce sync.Once
)

func openExtraWorld(a *ATWorld, tag, host, dbName string, step int64) *ATWorld {
	eng := memdb.New(dbName)
	if step > 1 {
		eng.SetAutoIncStep(step)
	}
	eng.CreateUndoLogTable()
	sql2.VerifRegisterDrivers("verif-at-"+tag, "verif-xa-"+tag, eng.Driver())
	res := "root:pw@tcp(" + host + ":3306)/" + dbName
	db, err := sql.Open("verif-at-"+tag, res+"?multiStatements=true")
	if err != nil {
		panic(err)
	}
	if err = db.Ping(); err != nil {
		panic(fmt.Sprintf("at-%s ping: %v", tag, err))
	}
	return &ATWorld{Eng: eng, DB: db, Bare: sql.OpenDB(eng.Connector()), coord: a.coord, DBName: dbName, ResourceID: res, nameFrom: a, Tag: tag}
}

// GetATWorldB opens a SECOND AT data source of the same process: another server (its own engine, with
// auto_increment_increment = 2) whose database has the SAME name as the first one's (as the shards of one
// logical database do), behind its own proxy driver and resource id.  Table names are drawn from world
// A's counter, so no table name is used on two servers.
func GetATWorldB() *ATWorld {
	a := GetATWorld()
	atWorldBOnce.Do(func() { atWorldB = openExtraWorld(a, "b", "127.0.0.2", "verifdb", 2) })
	return atWorldB
}

// GetATWorldC opens a THIRD data source: another server, a database with another name.
func GetATWorldC() *ATWorld {
	a := GetATWorld()
	atWorldCOnce.Do(func() { atWorldC = openExtraWorld(a, "c", "127.0.0.3", "verifdb_c", 1) })
	return atWorldC
}

// OpenXA opens the XA-proxied handle lazily (its resource registers separately).
func (w *ATWorld) OpenXA() *sql.DB {
	if w.XA == nil {
		db, err := sql.Open("verif-xa", atDSN)
		if err != nil {
			panic(err)
		}
		if err = db.Ping(); err != nil {
			panic(fmt.Sprintf("xa ping: %v", err))
		}
		w.XA = db
	}
	return w.XA
}

func (w *ATWorld) SetUndoConfig(ser string, comp string, validate bool, onlyCare bool) {
	undo.InitUndoConfig(undo.Config{DataValidation: validate, LogSerialization: ser, LogTable: "undo_log", OnlyCareUpdateColumns: onlyCare,
		CompressConfig: undo.CompressConfig{Enable: comp != "None" && comp != "", Type: comp, Threshold: "64k"}})
}

// NewTableName returns a table name unused so far in this process (the meta cache never forgets).
func (w *ATWorld) NewTableName(prefix string) string {
	if w.nameFrom != nil {
		return w.nameFrom.NewTableName(prefix)
	}
	w.tableSeq++
	return fmt.Sprintf("%s%d", prefix, w.tableSeq)
}

// ---- branches as the coordinator saw them ----

type BranchInfo struct {
	Xid        string
	BranchID   int64
	ResourceID string
	LockKey    string
	Type       branch.BranchType
}

// RegisteredBranches lists the branches registered (successfully answered) in the coordinator log.
func (c *Coord) RegisteredBranches(xid string) []BranchInfo {
	var out []BranchInfo
	c.mu.Lock()
	defer c.mu.Unlock()
	for _, l := range c.Log {
		if b, ok := l.Msg.Body.(message.BranchRegisterRequest); ok && b.Xid == xid {
			if id, ok := c.branchIDs[l.Msg.ID]; ok {
				out = append(out, BranchInfo{Xid: xid, BranchID: id, ResourceID: b.ResourceId, LockKey: b.LockKey, Type: b.BranchType})
			}
		}
	}
	return out
}

// ReportedFailed lists the branches of xid the client has reported as failed in phase one: a coordinator leaves
// those out of phase two, and takes every other registered branch through it
func (c *Coord) ReportedFailed(xid string) map[int64]bool {
	out := map[int64]bool{}
	c.mu.Lock()
	defer c.mu.Unlock()
	for _, l := range c.Log {
		if b, ok := l.Msg.Body.(message.BranchReportRequest); ok && b.Xid == xid && b.Status == branch.BranchStatusPhaseoneFailed {
			out[b.BranchId] = true
		}
	}
	return out
}

// RollbackBranch sends a BranchRollbackRequest and waits for the response (or its absence).
func (c *Coord) RollbackBranch(s *FakeSession, b BranchInfo, wait time.Duration) (branch.BranchStatus, bool, string) {
	id := int32(800000 + Stamp()%100000)
	var pn string
	done := make(chan struct{})
	go func() {
		defer close(done)
		pn = safeCall(func() { c.SendBranchRollback(s, id, b.Xid, b.BranchID, b.Type, b.ResourceID, nil) })
	}()
	select {
	case <-done:
	case <-time.After(wait):
		return 0, false, "timeout"
	}
	for _, l := range c.Snapshot() {
		if r, ok := l.Msg.Body.(message.BranchRollbackResponse); ok && l.Msg.ID == id {
			return r.BranchStatus, true, pn
		}
	}
	return 0, false, pn
}

func (c *Coord) CommitBranch(s *FakeSession, b BranchInfo, wait time.Duration) (branch.BranchStatus, bool, string) {
	id := int32(900000 + Stamp()%100000)
	var pn string
	done := make(chan struct{})
	go func() {
		defer close(done)
		pn = safeCall(func() { c.SendBranchCommit(s, id, b.Xid, b.BranchID, b.Type, b.ResourceID, nil) })
	}()
	select {
	case <-done:
	case <-time.After(wait):
		return 0, false, "timeout"
	}
	for _, l := range c.Snapshot() {
		if r, ok := l.Msg.Body.(message.BranchCommitResponse); ok && l.Msg.ID == id {
			return r.BranchStatus, true, pn
		}
	}
	return 0, false, pn
}

func (c *Coord) LastSession() *FakeSession {
	ss := c.Sessions()
	s := ss[len(ss)-1]
	if s.IsClosed() {
		s = c.OpenSession()
	}
	return s
}

// ---- table dumps ----

func showCell(v interface{}) string {
	switch x := v.(type) {
	case nil:
		return "N"
	case int64:
		return fmt.Sprintf("i%d", x)
	case float64:
		return fmt.Sprintf("f%v", x)
	case string:
		return "s" + hx([]byte(x))
	case []byte:
		return "b" + hx(x)
	case time.Time:
		return fmt.Sprintf("t%d", x.UnixNano())
	default:
		return fmt.Sprintf("?%v", v)
	}
}

func (w *ATWorld) DumpTable(name string) string {
	rows := w.Eng.Dump(name)
	out := make([]string, len(rows))
	for i, r := range rows {
		cs := make([]string, len(r))
		for k, v := range r {
			cs[k] = showCell(v)
		}
		out[i] = strings.Join(cs, ",")
	}
	sort.Strings(out)
	if len(out) == 0 {
		return "-"
	}
	return strings.Join(out, ";")
}

// UndoLogRows returns (xid, branch, status) of the undo_log rows.
func (w *ATWorld) UndoLogRows() []string {
	var out []string
	for _, r := range w.Eng.Dump("undo_log") {
		out = append(out, fmt.Sprintf("%v/%v/%v", r[2], r[1], r[5]))
	}
	sort.Strings(out)
	return out
}

// InGlobalTx runs f inside a real global transaction and returns the xid and WithGlobalTx's error.
func InGlobalTx(name string, f func(ctx context.Context) error) (string, error) {
	var xid string
	err := tm.WithGlobalTx(context.Background(), &tm.GtxConfig{Name: name, Timeout: 30 * time.Second}, func(ctx context.Context) error {
		xid = tm.GetXID(ctx)
		return f(ctx)
	})
	return xid, err
}
