// lockfacts extracts, from the Go sources of the repository, every access to a struct field (or
// package-level variable) that lives next to a sync.Mutex / sync.RWMutex, together with the locks that
// are syntactically held at that point, and prints them as a Lean file.  Intra-procedural and
// syntactic on purpose: small enough to be read, regenerated on every run.
//
//	lockfacts <repo root> <out.lean>
package main

import (
	"fmt"
	"go/ast"
	"go/parser"
	"go/token"
	"os"
	"path/filepath"
	"sort"
	"strings"
)

type guardedType struct {
	pkg, name string
	mutexes   []string        // mutex field names ("" = embedded)
	fields    map[string]bool // other fields with shared mutable content (map, slice, pointer, interface)
}

type access struct {
	owner  string // pkg.Type or pkg (package-level)
	field  string
	fn     string
	write  bool
	held   []string
	site   string // file:line
	inCtor bool
	inGo   bool
}

func isMutexType(e ast.Expr) bool {
	if se, ok := e.(*ast.SelectorExpr); ok {
		if id, ok := se.X.(*ast.Ident); ok && id.Name == "sync" && (se.Sel.Name == "Mutex" || se.Sel.Name == "RWMutex") {
			return true
		}
	}
	return false
}

func sharedKind(e ast.Expr) bool {
	switch e.(type) {
	case *ast.MapType, *ast.ArrayType, *ast.StarExpr, *ast.InterfaceType:
		return true
	}
	return false
}

func main() {
	root, out := os.Args[1], os.Args[2]
	fset := token.NewFileSet()
	var files []*ast.File
	var paths []string
	filepath.Walk(filepath.Join(root, "pkg"), func(p string, info os.FileInfo, err error) error {
		if err != nil || info.IsDir() || !strings.HasSuffix(p, ".go") || strings.HasSuffix(p, "_test.go") || strings.HasPrefix(filepath.Base(p), "verif_") {
			return nil
		}
		f, perr := parser.ParseFile(fset, p, nil, 0)
		if perr == nil {
			files = append(files, f)
			paths = append(paths, p)
		}
		return nil
	})
	// ---- guarded struct types and guarded package-level variables
	types := map[string]*guardedType{}      // key pkgdir.Type
	pkgMutex := map[string][]string{}       // pkgdir -> mutex var names
	pkgVars := map[string]map[string]bool{} // pkgdir -> shared var names
	for i, f := range files {
		dir := relDir(root, paths[i])
		for _, d := range f.Decls {
			gd, ok := d.(*ast.GenDecl)
			if !ok {
				continue
			}
			for _, sp := range gd.Specs {
				switch s := sp.(type) {
				case *ast.TypeSpec:
					st, ok := s.Type.(*ast.StructType)
					if !ok {
						continue
					}
					gt := &guardedType{pkg: dir, name: s.Name.Name, fields: map[string]bool{}}
					for _, fl := range st.Fields.List {
						if isMutexType(fl.Type) {
							if len(fl.Names) == 0 {
								gt.mutexes = append(gt.mutexes, "")
							}
							for _, n := range fl.Names {
								gt.mutexes = append(gt.mutexes, n.Name)
							}
						} else if sharedKind(fl.Type) {
							for _, n := range fl.Names {
								gt.fields[n.Name] = true
							}
						}
					}
					if len(gt.mutexes) > 0 {
						types[dir+"."+s.Name.Name] = gt
					}
				case *ast.ValueSpec:
					if gd.Tok != token.VAR {
						continue
					}
					for _, n := range s.Names {
						if s.Type != nil && isMutexType(s.Type) {
							pkgMutex[dir] = append(pkgMutex[dir], n.Name)
						} else if s.Type != nil && sharedKind(s.Type) {
							if pkgVars[dir] == nil {
								pkgVars[dir] = map[string]bool{}
							}
							pkgVars[dir][n.Name] = true
						} else if s.Type == nil && len(s.Values) > 0 {
							if cl, ok := s.Values[0].(*ast.CallExpr); ok {
								if id, ok := cl.Fun.(*ast.Ident); ok && id.Name == "make" && len(cl.Args) > 0 && sharedKind(cl.Args[0]) {
									if pkgVars[dir] == nil {
										pkgVars[dir] = map[string]bool{}
									}
									pkgVars[dir][n.Name] = true
								}
							}
						}
					}
				}
			}
		}
	}
	// ---- accesses: two passes; the first collects, per guarded type, the locks held at the call sites of
	// its own unexported methods, the second assumes the locks held at ALL call sites on entry
	entryHeld := map[string][]string{} // pkgdir.Type.method -> locks
	var accs []access
	for pass := 0; pass < 2; pass++ {
		accs = nil
		callSites := map[string][][]string{}
		for i, f := range files {
			dir := relDir(root, paths[i])
			for _, d := range f.Decls {
				fd, ok := d.(*ast.FuncDecl)
				if !ok || fd.Body == nil {
					continue
				}
				recvName, recvType := "", ""
				if fd.Recv != nil && len(fd.Recv.List) == 1 {
					t := fd.Recv.List[0].Type
					if st, ok := t.(*ast.StarExpr); ok {
						t = st.X
					}
					if id, ok := t.(*ast.Ident); ok {
						recvType = id.Name
					}
					if len(fd.Recv.List[0].Names) == 1 {
						recvName = fd.Recv.List[0].Names[0].Name
					}
				}
				gt := types[dir+"."+recvType]
				hasPkg := len(pkgMutex[dir]) > 0
				if gt == nil && !hasPkg {
					continue
				}
				w := &walker{fset: fset, root: root, dir: dir, gt: gt, recv: recvName, fn: fd.Name.Name, pkgMutex: pkgMutex[dir], pkgVars: pkgVars[dir],
					ctor:  strings.HasPrefix(fd.Name.Name, "New") || fd.Name.Name == "init" || strings.HasPrefix(fd.Name.Name, "Init"),
					calls: map[string][][]string{}}
				if recvType != "" {
					w.fn = recvType + "." + fd.Name.Name
				}
				held := map[string]bool{}
				for _, l := range entryHeld[dir+"."+w.fn] {
					held[l] = true
				}
				w.block(fd.Body.List, held, false)
				accs = append(accs, w.out...)
				for m, sets := range w.calls {
					key := dir + "." + recvType + "." + m
					callSites[key] = append(callSites[key], sets...)
				}
			}
		}
		if pass == 0 {
			for key, sets := range callSites {
				name := key[strings.LastIndex(key, ".")+1:]
				if name == "" || !(name[0] >= 'a' && name[0] <= 'z') {
					continue // exported methods can be called from anywhere
				}
				inter := map[string]int{}
				for _, hs := range sets {
					for _, l := range hs {
						inter[l]++
					}
				}
				for l, n := range inter {
					if n == len(sets) {
						entryHeld[key] = append(entryHeld[key], l)
					}
				}
			}
		}
	}
	sort.Slice(accs, func(i, j int) bool { return accs[i].site < accs[j].site })
	// ---- emit Lean
	var sb strings.Builder
	sb.WriteString("/- GENERATED by /verif/lockfacts from the Go sources; do not edit. -/\nimport SeataModel.Conc.LockDiscipline\nnamespace Seata.Gen\nopen Seata.Conc\n\n")
	sb.WriteString("def accesses : List Access := [\n")
	for i, a := range accs {
		sep := ","
		if i == len(accs)-1 {
			sep = ""
		}
		fmt.Fprintf(&sb, "  { owner := %q, field := %q, fn := %q, write := %v, held := [%s], site := %q, ctor := %v, goroutine := %v }%s\n",
			a.owner, a.field, a.fn, a.write, quoteAll(a.held), a.site, a.inCtor, a.inGo, sep)
	}
	sb.WriteString("]\n\nend Seata.Gen\n")
	os.WriteFile(out, []byte(sb.String()), 0o644)
	fmt.Printf("%d accesses in %d guarded types / %d packages with package-level locks\n", len(accs), len(types), len(pkgMutex))
}

func quoteAll(xs []string) string {
	var q []string
	for _, x := range xs {
		q = append(q, fmt.Sprintf("%q", x))
	}
	return strings.Join(q, ", ")
}

func relDir(root, p string) string {
	r, _ := filepath.Rel(root, filepath.Dir(p))
	return r
}

type walker struct {
	fset     *token.FileSet
	root     string
	dir      string
	gt       *guardedType
	recv     string
	fn       string
	pkgMutex []string
	pkgVars  map[string]bool
	ctor     bool
	out      []access
	calls    map[string][][]string // own method name -> held sets at its call sites
	entry    []string              // locks assumed held on entry (from the call sites)
}

// lockCall recognises  <recv>.<mutex>.Lock() / RLock / Unlock / RUnlock,  <recv>.Lock() for an embedded
// mutex, and <pkgMutex>.Lock().
func (w *walker) lockCall(e ast.Expr) (lock string, acquire bool, ok bool) {
	ce, isCall := e.(*ast.CallExpr)
	if !isCall {
		return
	}
	se, isSel := ce.Fun.(*ast.SelectorExpr)
	if !isSel {
		return
	}
	switch se.Sel.Name {
	case "Lock", "RLock":
		acquire = true
	case "Unlock", "RUnlock":
	default:
		return
	}
	switch x := se.X.(type) {
	case *ast.Ident:
		if w.gt != nil && x.Name == w.recv {
			for _, m := range w.gt.mutexes {
				if m == "" {
					return w.gt.pkg + "." + w.gt.name + ".<embedded>", acquire, true
				}
			}
		}
		for _, m := range w.pkgMutex {
			if x.Name == m {
				return w.dir + "." + m, acquire, true
			}
		}
	case *ast.SelectorExpr:
		if id, isId := x.X.(*ast.Ident); isId && w.gt != nil && id.Name == w.recv {
			for _, m := range w.gt.mutexes {
				if m == x.Sel.Name {
					return w.gt.pkg + "." + w.gt.name + "." + m, acquire, true
				}
			}
		}
	}
	return
}

func copyHeld(h map[string]bool) map[string]bool {
	c := map[string]bool{}
	for k, v := range h {
		c[k] = v
	}
	return c
}

func (w *walker) block(stmts []ast.Stmt, held map[string]bool, inGo bool) {
	for _, s := range stmts {
		w.stmt(s, held, inGo)
	}
}

func (w *walker) stmt(s ast.Stmt, held map[string]bool, inGo bool) {
	switch x := s.(type) {
	case *ast.ExprStmt:
		if l, acq, ok := w.lockCall(x.X); ok {
			if acq {
				held[l] = true
			} else {
				delete(held, l)
			}
			return
		}
		w.expr(x.X, held, false, inGo)
	case *ast.DeferStmt:
		if _, acq, ok := w.lockCall(x.Call); ok && !acq {
			return // deferred unlock: held until the function returns
		}
		w.expr(x.Call, held, false, inGo)
	case *ast.GoStmt:
		// the new goroutine starts with no lock held
		if fl, ok := x.Call.Fun.(*ast.FuncLit); ok {
			w.block(fl.Body.List, map[string]bool{}, true)
		} else {
			w.expr(x.Call, map[string]bool{}, false, true)
		}
	case *ast.AssignStmt:
		for _, l := range x.Lhs {
			w.expr(l, held, true, inGo)
		}
		for _, r := range x.Rhs {
			w.expr(r, held, false, inGo)
		}
	case *ast.IncDecStmt:
		w.expr(x.X, held, true, inGo)
	case *ast.BlockStmt:
		w.block(x.List, copyHeld(held), inGo)
	case *ast.IfStmt:
		if x.Init != nil {
			w.stmt(x.Init, held, inGo)
		}
		w.expr(x.Cond, held, false, inGo)
		w.block(x.Body.List, copyHeld(held), inGo)
		if x.Else != nil {
			w.stmt(x.Else, copyHeld(held), inGo)
		}
	case *ast.ForStmt:
		if x.Init != nil {
			w.stmt(x.Init, held, inGo)
		}
		if x.Cond != nil {
			w.expr(x.Cond, held, false, inGo)
		}
		w.block(x.Body.List, copyHeld(held), inGo)
	case *ast.RangeStmt:
		w.expr(x.X, held, false, inGo)
		w.block(x.Body.List, copyHeld(held), inGo)
	case *ast.SwitchStmt:
		if x.Tag != nil {
			w.expr(x.Tag, held, false, inGo)
		}
		for _, c := range x.Body.List {
			if cc, ok := c.(*ast.CaseClause); ok {
				w.block(cc.Body, copyHeld(held), inGo)
			}
		}
	case *ast.SelectStmt:
		for _, c := range x.Body.List {
			if cc, ok := c.(*ast.CommClause); ok {
				w.block(cc.Body, copyHeld(held), inGo)
			}
		}
	case *ast.ReturnStmt:
		for _, r := range x.Results {
			w.expr(r, held, false, inGo)
		}
	case *ast.DeclStmt:
		if gd, ok := x.Decl.(*ast.GenDecl); ok {
			for _, sp := range gd.Specs {
				if vs, ok := sp.(*ast.ValueSpec); ok {
					for _, v := range vs.Values {
						w.expr(v, held, false, inGo)
					}
				}
			}
		}
	}
}

func (w *walker) record(owner, field string, write bool, held map[string]bool, pos token.Pos, inGo bool) {
	var hs []string
	for k := range held {
		hs = append(hs, k)
	}
	sort.Strings(hs)
	p := w.fset.Position(pos)
	rel, _ := filepath.Rel(w.root, p.Filename)
	w.out = append(w.out, access{owner: owner, field: field, fn: w.fn, write: write, held: hs, site: fmt.Sprintf("%s:%d", rel, p.Line), inCtor: w.ctor, inGo: inGo})
}

func (w *walker) expr(e ast.Expr, held map[string]bool, write bool, inGo bool) {
	switch x := e.(type) {
	case nil:
	case *ast.SelectorExpr:
		if id, ok := x.X.(*ast.Ident); ok && w.gt != nil && id.Name == w.recv && w.gt.fields[x.Sel.Name] {
			w.record(w.gt.pkg+"."+w.gt.name, x.Sel.Name, write, held, x.Pos(), inGo)
			return
		}
		w.expr(x.X, held, false, inGo)
	case *ast.Ident:
		if w.pkgVars[x.Name] && x.Obj != nil && x.Obj.Kind == ast.Var {
			if _, isVS := x.Obj.Decl.(*ast.ValueSpec); isVS {
				w.record(w.dir, x.Name, write, held, x.Pos(), inGo)
			}
		}
	case *ast.IndexExpr:
		w.expr(x.X, held, write, inGo) // m[k] = v writes m
		w.expr(x.Index, held, false, inGo)
	case *ast.CallExpr:
		if id, ok := x.Fun.(*ast.Ident); ok && (id.Name == "delete" || id.Name == "append") && len(x.Args) > 0 {
			w.expr(x.Args[0], held, id.Name == "delete", inGo)
			for _, a := range x.Args[1:] {
				w.expr(a, held, false, inGo)
			}
			return
		}
		if se, ok := x.Fun.(*ast.SelectorExpr); ok {
			if id, ok := se.X.(*ast.Ident); ok && w.gt != nil && id.Name == w.recv && w.calls != nil {
				var hs []string
				for k := range held {
					hs = append(hs, k)
				}
				sort.Strings(hs)
				w.calls[se.Sel.Name] = append(w.calls[se.Sel.Name], hs)
			}
		}
		if fl, ok := x.Fun.(*ast.FuncLit); ok {
			w.block(fl.Body.List, copyHeld(held), inGo)
		} else {
			w.expr(x.Fun, held, false, inGo)
		}
		for _, a := range x.Args {
			if fl, ok := a.(*ast.FuncLit); ok {
				// a closure handed to a call (sort.Search, Range, Do, …) runs during that call
				w.block(fl.Body.List, copyHeld(held), inGo)
				continue
			}
			w.expr(a, held, false, inGo)
		}
	case *ast.FuncLit:
		// a closure defined here and called later (possibly elsewhere): analysed with the locks held at
		// its definition only when it is invoked on the spot (handled in CallExpr); otherwise none
		w.block(x.Body.List, map[string]bool{}, inGo)
	case *ast.UnaryExpr:
		w.expr(x.X, held, write, inGo)
	case *ast.BinaryExpr:
		w.expr(x.X, held, false, inGo)
		w.expr(x.Y, held, false, inGo)
	case *ast.ParenExpr:
		w.expr(x.X, held, write, inGo)
	case *ast.StarExpr:
		w.expr(x.X, held, write, inGo)
	case *ast.SliceExpr:
		w.expr(x.X, held, write, inGo)
	case *ast.TypeAssertExpr:
		w.expr(x.X, held, false, inGo)
	case *ast.CompositeLit:
		for _, el := range x.Elts {
			w.expr(el, held, false, inGo)
		}
	case *ast.KeyValueExpr:
		w.expr(x.Value, held, false, inGo)
	}
}
