module lockfacts

go 1.20
